/-
  Fir.Model.Resizer - model of `Resizer::resize_typed` (src/resizer.rs), line by line:
  crop box selection, zero-size early-out, crop validation, copy fast path, algorithm dispatch, alpha
  path (premultiply -> convolve -> divide), pass selection and order, temporary image geometry and
  bound shifting, super-sampling.  Scratch buffers do not appear: every temporary image of the real
  code is completely written before it is read (C09), so the result is a function of the arguments.
-/
import Fir.Model.Resample
import Fir.Model.CropF64
import Fir.Model.FitCrop
import Fir.Generated.Lists
namespace Fir

inductive Alg where
  | nearest
  | conv (f : FilterSpec)
  | interp (f : FilterSpec)
  | ss (f : FilterSpec) (m : Nat)

inductive Cropping where
  | none
  | box (l t w h : Float)
  | fit (cx cy : Float)

structure ROpts where
  alg : Alg
  crop : Cropping
  useAlpha : Bool

/-- 0 ok; 1,2,3 crop errors (as `cropCheck`) -/
abbrev RStatus := Nat

def mulImg (p : PixT) (im : Img) : Img := { im with data := mulPixels p im.data }
def divImg (p : PixT) (im : Img) : Img := { im with data := divPixels p im.data }

def isIntF (x : Float) : Bool := x == x.round

/-- first used sample over ALL windows (the repaired code takes the minimum, not `bounds[0]`) -/
def boundsFirst (c : Coeffs) : Nat := c.bounds.foldl (fun m b => min m b.1) (c.bounds.getD 0 (0, 0)).1
/-- one past the last used sample over all windows -/
def boundsLast (c : Coeffs) : Nat := c.bounds.foldl (fun m b => max m (b.1 + b.2)) 0

/-- `do_convolution` -/
def doConvolution (p : PixT) (src : Img) (cl ct cw ch : Float) (prev : Img) (f : FilterSpec) (adaptive : Bool) : Img := Id.run do
  let dstW := prev.w
  let dstH := prev.h
  if dstW = 0 ∨ dstH = 0 ∨ cw ≤ 0.0 ∨ ch ≤ 0.0 then return prev
  let needH := Float.ofNat dstW != cw || cl != cl.round
  let needV := Float.ofNat dstH != ch || ct != ct.round
  let hc := if needH then some (precomputeCoefficients src.w cl (cl + cw) dstW f adaptive) else none
  let vc := if needV then some (precomputeCoefficients src.h ct (ct + ch) dstH f adaptive) else none
  match hc, vc with
  | some hc, some vc =>
    if p.kind == .u8 then
      let xFirst := boundsFirst hc
      let tempW := boundsLast hc - xFirst
      -- a zero-width temporary image yields no rows at all: the horizontal pass writes nothing (finding F18)
      if tempW = 0 then return prev
      let temp := vertPass p.kind src tempW dstH xFirst vc
      let hc' := { hc with bounds := hc.bounds.map fun b => (b.1 - xFirst, b.2) }
      return horizPass p.kind temp dstW dstH 0 hc'
    else
      let yFirst := boundsFirst vc
      let tempH := boundsLast vc - yFirst
      let temp := horizPass p.kind src dstW tempH yFirst hc
      let vc' := { vc with bounds := vc.bounds.map fun b => (b.1 - yFirst, b.2) }
      return vertPass p.kind temp dstW dstH 0 vc'
  | some hc, none => return horizPass p.kind src dstW dstH ct.toUInt32.toNat hc
  | none, some vc => return vertPass p.kind src dstW dstH cl.toUInt32.toNat vc
  | none, none => return prev

/-- `resample_convolution` -/
def resampleConvolution (p : PixT) (src : Img) (cl ct cw ch : Float) (prev : Img) (f : FilterSpec) (adaptive useAlpha : Bool) : Img :=
  if useAlpha && Gen.alphaSupported.contains p.name then
    divImg p (doConvolution p (mulImg p src) cl ct cw ch prev f adaptive)
  else doConvolution p src cl ct cw ch prev f adaptive

/-- `copy_image`: some result iff the crop box is integer-aligned and has the destination's size -/
def copyImage (src : Img) (cl ct cw ch : Float) (prev : Img) : Option Img :=
  if cl != cl.round || ct != ct.round || cw != cw.round || ch != ch.round then none
  else if prev.w != cw.toUInt32.toNat || prev.h != ch.toUInt32.toNat then none
  else if prev.w > 0 && prev.h > 0 then some (copyPass src cl.toUInt32.toNat ct.toUInt32.toNat prev.w prev.h)
  else some prev

/-- `width_scale.min(height_scale) / multiplicity as f64` -/
def ssFactor (cw ch : Float) (dw dh m : Nat) : Float :=
  let widthScale := cw / Float.ofNat dw
  let heightScale := ch / Float.ofNat dh
  let mn := if heightScale < widthScale then heightScale else if widthScale.isNaN then heightScale else widthScale   -- f64::min
  mn / Float.ofNat m

/-- `(crop_box.width / factor).round() as u32` -/
def ssTmpDim (c factor : Float) : Nat := (c / factor).round.toUInt32.toNat

/-- `resample_super_sampling` -/
def resampleSuperSampling (p : PixT) (src : Img) (cl ct cw ch : Float) (prev : Img) (f : FilterSpec) (m : Nat) (useAlpha : Bool) : Img :=
  if prev.w = 0 ∨ prev.h = 0 ∨ cw ≤ 0.0 ∨ ch ≤ 0.0 then prev else
  let factor := ssFactor cw ch prev.w prev.h m
  if factor > 1.2 then
    let tmpW := ssTmpDim cw factor
    let tmpH := ssTmpDim ch factor
    let tmp := nearestPass src cl ct cw ch (Img.fill tmpW tmpH src.n 0)
    match copyImage tmp 0.0 0.0 (Float.ofNat tmpW) (Float.ofNat tmpH) prev with
    | some r => r
    | none => resampleConvolution p tmp 0.0 0.0 (Float.ofNat tmpW) (Float.ofNat tmpH) prev f true useAlpha
  else resampleConvolution p src cl ct cw ch prev f true useAlpha

/-- `resize_typed`: (status, destination after the call); `prev` = destination before the call -/
def resizeModel (p : PixT) (src : Img) (prev : Img) (o : ROpts) : RStatus × Img :=
  let (cl, ct, cw, ch) : Float × Float × Float × Float :=
    match o.crop with
    | .none => (0.0, 0.0, Float.ofNat src.w, Float.ofNat src.h)
    | .box l t w h => (l, t, w, h)
    | .fit cx cy => fitCrop src.w src.h prev.w prev.h cx cy
  if cw == 0.0 || ch == 0.0 || prev.w == 0 || prev.h == 0 then (0, prev) else
  let code := cropCheck floatOps src.w src.h cl ct cw ch
  if code ≠ 0 then (code, prev) else
  match copyImage src cl ct cw ch prev with
  | some r => (0, r)
  | none =>
    match o.alg with
    | .nearest => (0, nearestPass src cl ct cw ch prev)
    | .conv f => (0, resampleConvolution p src cl ct cw ch prev f true o.useAlpha)
    | .interp f => (0, resampleConvolution p src cl ct cw ch prev f false o.useAlpha)
    | .ss f m => (0, resampleSuperSampling p src cl ct cw ch prev f m o.useAlpha)

end Fir
