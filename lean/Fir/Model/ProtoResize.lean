/-
  Fir.Model.ProtoResize - line-protocol handler for whole resizes through any container.

  resize pt=<PT> ext=none|sse4|avx2 sview=<shape> dview=<shape> alg=<alg> crop=<crop> alpha=0|1
         sbuf=<hex: every pixel of the source buffer> fill=<2 hex digits: byte the destination buffer was filled with>
         got=ok:<hex: every pixel of the destination buffer afterwards>|err:<Kind>:<hex>|panic:...
         [fill2=.. got2=..]            second run with another sentinel (write-set, C05)
         [check=uniform|range|copy|nearest ...]   additional oracles on the implementation's output
  <alg>  ::= nearest | conv:<filter> | interp:<filter> | ss:<filter>:<m>
  <crop> ::= none | box:<l>,<t>,<w>,<h> (f64 hex) | fit:<cx>,<cy>
-/
import Fir.Model.Resizer
import Fir.Model.ProtoView
import Fir.Model.ProtoGeom
import Fir.Model.ProtoAlpha
namespace Fir

def parseAlg (s : String) : Option Alg :=
  match s.splitOn ":" with
  | ["nearest"] => some .nearest
  | ["conv", f] => (filterOfName f).map .conv
  | ["interp", f] => (filterOfName f).map .interp
  | ["ss", f, m] => match filterOfName f, m.toNat? with
    | some f, some m => some (.ss f m)
    | _, _ => none
  | _ => none

def parseCrop (s : String) : Option Cropping :=
  match s.splitOn ":" with
  | ["none"] => some .none
  | ["box", v] => match (v.splitOn ",").mapM f64OfHex with
    | some [l, t, w, h] => some (.box l t w h)
    | _ => none
  | ["fit", v] => match (v.splitOn ",").mapM f64OfHex with
    | some [cx, cy] => some (.fit cx cy)
    | _ => none
  | _ => none

/-- component value of a buffer filled with the byte `b` -/
def fillComp (k : CKind) (b : Nat) : Int :=
  match k with
  | .u8 => b
  | .u16 => b * 257
  | .i32 => compOfRaw .i32 (b * 16843009)
  | .f32 => b * 16843009

/-- logical image seen through a view of a buffer of pixels (`n` components each) -/
def extractImg (v : View) (n : Nat) (buf : Array Int) : Img :=
  let idx := (v.rows 0).flatten
  ⟨v.width, v.height, n, Array.ofFn (n := idx.length * n) fun i => buf.getD (idx[i.val / n]! * n + i.val % n) 0⟩

/-- store the `n` components of logical pixel `p` of `im` into buffer pixel `q` -/
def writePixel (n : Nat) (im : Img) (b : Array Int) (q p : Nat) : Array Int :=
  (List.range n).foldl (fun b c => b.setIfInBounds (q * n + c) (im.data.getD (p * n + c) 0)) b

/-- write a logical image back through a view: logical pixel `p` goes to the `p`-th buffer index the
    view exposes; nothing else is touched -/
def injectImg (v : View) (n : Nat) (im : Img) (buf : Array Int) : Array Int :=
  (((v.rows 0).flatten).zipIdx).foldl (fun b qp => writePixel n im b qp.1 qp.2) buf

def statusName : Nat → String
  | 0 => "ok" | 1 => "err:PositionIsOutOfImageBoundaries" | 2 => "err:SizeIsOutOfImageBoundaries"
  | 3 => "err:WidthOrHeightLessThanZero" | _ => "?"

def ulp32 (bits : Int) : Float :=
  -- spacing of binary32 numbers around the value with these bits
  let e := (bits.toNat / 8388608) % 256
  Float.ofScientific 1 false 0 * (Float.ofNat 2) ^ (Float.ofInt ((if e = 0 then 1 else e : Nat) : Int) - 150.0)

structure ResizeReq where
  p : PixT
  ext : String
  sview : View
  dview : View
  opts : ROpts
  sbuf : Array Int
  dlen : Nat

def maxAbsF32 (a : Array Int) : Float := a.foldl (fun m b => let v := (f64OfF32Bits b).abs; if v > m then v else m) 0.0

/-- compare the model's destination buffer with the implementation's; integers exactly (16-bit alpha
    division on SIMD back-ends: one unit, C02), f32 on SIMD back-ends within a few ulps -/
def compareBuf (r : ResizeReq) (alphaPath : Bool) (model got : Array Int) : Option String := Id.run do
  if model.size ≠ got.size then return some s!"size {model.size} vs {got.size}"
  let k := r.p.kind
  let simd := r.ext != "none"
  let intTol : Int := if simd ∧ k == .u16 ∧ alphaPath then 1 else 0
  let mabs := if k == .f32 then maxAbsF32 r.sbuf else 0.0
  for i in [0:model.size] do
    let a := model[i]!
    let b := got[i]!
    if a == b then continue
    match k with
    | .f32 =>
      let ca := canonF32 a
      let cb := canonF32 b
      if ca == cb then continue
      if ¬ simd ∧ ¬ alphaPath then return some s!"comp {i}: model={a} got={b}"
      let fa := f64OfF32Bits a
      let fb := f64OfF32Bits b
      -- a few ulps of the result plus about two ulps of the largest intermediate value (two-pass resizes store
      -- the first pass as f32: re-association differences of that pass are amplified by cancellation in the second)
      let tol := 8.0 * ulp32 (if fa.abs > fb.abs then a else b) + 1e-6 * mabs
      if (fa - fb).abs ≤ tol then continue
      return some s!"comp {i}: model={fa} got={fb} (bits {a} / {b})"
    | _ =>
      let d := a - b
      if d ≤ intTol ∧ -intTol ≤ d then continue
      return some s!"comp {i} (pixel {i / r.p.n}): model={a} got={b}"
  return none

def parseResizeReq (fs : List (String × String)) : Option ResizeReq := do
  let p ← (getField fs "pt").bind PixT.ofName
  let ext ← getField fs "ext"
  let sview ← (getField fs "sview").bind parseShape
  let dview ← (getField fs "dview").bind parseShape
  let alg ← (getField fs "alg").bind parseAlg
  let crop ← (getField fs "crop").bind parseCrop
  let alpha ← getNat fs "alpha"
  let sbuf ← (getField fs "sbuf").bind (parseComps p.kind)
  let dlen ← getNat fs "dlen"
  pure ⟨p, ext, sview, dview, ⟨alg, crop, alpha == 1⟩, sbuf, dlen⟩

def splitStatus (got : String) : String × String :=
  -- "ok:<hex>" | "err:Kind:<hex>" | "panic:..."
  if got.startsWith "ok:" then ("ok", (got.drop 3).toString)
  else if got.startsWith "err:" then
    match (got.drop 4).toString.splitOn ":" with
    | [k, h] => ("err:" ++ k, h)
    | _ => (got, "")
  else (got, "")

/-- run the model for one sentinel fill; returns (status, expected destination buffer) -/
def runModel (r : ResizeReq) (fillByte : Nat) : String × Array Int :=
  let n := r.p.n
  let src := extractImg r.sview n r.sbuf
  let dbuf : Array Int := Array.replicate (r.dlen * n) (fillComp r.p.kind fillByte)
  let prev := extractImg r.dview n dbuf
  let (st, out) := resizeModel r.p src prev r.opts
  (statusName st, injectImg r.dview n out dbuf)

def alphaPathOf (r : ResizeReq) : Bool :=
  r.opts.useAlpha && r.p.hasAlpha && (match r.opts.alg with | .nearest => false | _ => true)

def handleResize (fs : List (String × String)) : String :=
  match parseResizeReq fs, getField fs "fill", getField fs "got" with
  | some r, some fillH, some got =>
    match parseHexNat fillH with
    | none => "BAD-REQUEST fill"
    | some fb =>
      let (gst, ghex) := splitStatus got
      if gst.startsWith "panic" then s!"SPEC-FAIL resize panicked: {gst.take 160}" else
      match parseComps r.p.kind ghex with
      | none => "BAD-REQUEST got"
      | some gbuf =>
        let (mst, mbuf) := runModel r fb
        let m1 : Option String :=
          if mst != gst then some s!"status model={mst} got={gst}" else compareBuf r (alphaPathOf r) mbuf gbuf
        -- optional second run with another sentinel: the write set must be the same and complete
        let m2 : Option String :=
          match getField fs "fill2", getField fs "got2" with
          | some f2, some g2 =>
            match parseHexNat f2, parseComps r.p.kind (splitStatus g2).2 with
            | some fb2, some gbuf2 =>
              let (mst2, mbuf2) := runModel r fb2
              if mst2 != (splitStatus g2).1 then some s!"status(2) model={mst2}" else compareBuf r (alphaPathOf r) mbuf2 gbuf2
            | _, _ => some "unparsable second run"
          | _, _ => none
        match m1, m2 with
        | none, none => "OK"
        | some m, _ => "MODEL-DIFF " ++ m
        | none, some m => "MODEL-DIFF (second sentinel) " ++ m
  | _, _, _ => "BAD-REQUEST fields"

end Fir
