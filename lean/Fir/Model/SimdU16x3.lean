/-
  Fir.Model.SimdU16x3 - lane-accurate model of the SSE4.1 horizontal kernels for three-channel 16-bit images (RGB16)
  (`horiz_convolution_one_row` / `horiz_convolution_four_rows` of src/convolution/u16x3/sse4.rs).

  Accumulators `rg = [R, G]` and `bb = [B of even steps, B of odd steps]` (64-bit lanes).  A 128-bit load covers two pixels and a
  third of the next one, so the two-coefficient loop only runs when the window does not end at the last pixel of the row
  (`width - end_x >= 1`); otherwise, and for a last odd coefficient, pixels are read one by one (`_mm_set_epi64x`).  The one-row
  kernel starts `rg` at `1 << (precision - 1)` and both lanes of `bb` at `1 << (precision - 2)`; the four-row kernel starts at
  zero and adds `half_error` at the end.  `bb`'s two lanes are summed in `i64`; everything goes through `Normalizer32::clip`.
-/
import Fir.Model.SimdU16x1
namespace Fir.SimdU16x3
open Fir.Gen Fir.SimdU8x4 Fir.SimdVertU16

/-- `loadu_si128` at pixel `x`: 8 components of 16 bits (two pixels and two components of the third) -/
def src3 (row : List Int) (x : Nat) : List Int :=
  (List.range 8).flatMap fun i => [row.getD (3 * x + i) 0 % 256, (row.getD (3 * x + i) 0 / 256) % 256]

/-- two coefficients, two pixels -/
def acc2 (s : List (List Int)) (row : List Int) (x : Nat) (k0 k1 : Int) : List (List Int) :=
  let source := src3 row x
  [add64 (add64 (s.getD 0 []) (mulEpi32 (pshufb source u16x3_sse4_rg0) k0)) (mulEpi32 (pshufb source u16x3_sse4_rg1) k1),
   add64 (s.getD 1 []) (SimdU16x1.mul2 (pshufb source u16x3_sse4_bb) k0 k1)]

/-- one coefficient, one pixel read component by component:
    `_mm_set_epi64x(pixel.0[1] as i64, pixel.0[0] as i64)`, `_mm_set_epi64x(0, pixel.0[2] as i64)` -/
def acc1 (s : List (List Int)) (row : List Int) (x : Nat) (k : Int) : List (List Int) :=
  let c := fun i => row.getD (3 * x + i) 0 % 65536
  [add64 (s.getD 0 []) [wrap64 (c 0 * wrap32 k), wrap64 (c 1 * wrap32 k)],
   add64 (s.getD 1 []) [wrap64 (c 2 * wrap32 k), wrap64 (0 * wrap32 k)]]

/-- `for &k in coeffs` -/
def scalars (row : List Int) : List Int → Nat → List (List Int) → List (List Int)
  | k :: ks, x, s => scalars row ks (x + 1) (acc1 s row x k)
  | [], _, s => s

/-- `for k in coeffs_by_2`, then the remainder one by one -/
def pairs (row : List Int) : List Int → Nat → List (List Int) → List (List Int)
  | k0 :: k1 :: ks, x, s => pairs row ks (x + 2) (acc2 s row x k0 k1)
  | ks, x, s => scalars row ks x s

/-- both kernels: the pair loop only when the window ends before the last pixel of the row of `w` pixels -/
def run (w : Nat) (row : List Int) (start : Nat) (ks : List Int) (s : List (List Int)) : List (List Int) :=
  if w - (start + ks.length) ≥ 1 then pairs row ks start s else scalars row ks start s

/-- one destination pixel of the one-row kernel -/
def pixel (p w : Nat) (row : List Int) (start : Nat) (ks : List Int) : List Int :=
  let rgI := wrap64 (2 ^ (p - 1))
  let bbI := wrap64 (2 ^ (p - 2))
  let s := run w row start ks [[rgI, rgI], [bbI, bbI]]
  [(clip32 ((s.getD 0 []).getD 0 0) p : Int), (clip32 ((s.getD 0 []).getD 1 0) p : Int),
   (clip32 (wrap64 ((s.getD 1 []).getD 0 0 + (s.getD 1 []).getD 1 0)) p : Int)]

/-- one destination pixel of one row of the four-row kernel -/
def pixelR (p w : Nat) (row : List Int) (start : Nat) (ks : List Int) : List Int :=
  let h := wrap64 (2 ^ (p - 1))
  let s := run w row start ks [[0, 0], [0, 0]]
  [(clip32 (wrap64 ((s.getD 0 []).getD 0 0 + h)) p : Int), (clip32 (wrap64 ((s.getD 0 []).getD 1 0 + h)) p : Int),
   (clip32 (wrap64 (wrap64 ((s.getD 1 []).getD 0 0 + (s.getD 1 []).getD 1 0) + h)) p : Int)]

/-- what the portable kernel accumulates for channel `c` -/
def dot3 (row : List Int) (c : Nat) : List Int → Nat → Int
  | [], _ => 0
  | k :: ks, x => row.getD (3 * x + c) 0 % 65536 * wrap32 k + dot3 row c ks (x + 1)

/-- pixel index and byte length of every 128-bit load of `run` (C03: they must lie inside the row) -/
def loads (w start : Nat) (ks : List Int) : List Nat :=
  if w - (start + ks.length) ≥ 1 then (List.range (ks.length / 2)).map fun i => start + 2 * i else []

end Fir.SimdU16x3
