/-
  Fir.Model.SimdU16x2A - lane-accurate model of the AVX2 one-row horizontal kernel for LA16
  (`horiz_convolution_one_row` of src/convolution/u16x2/avx2.rs).  As for RGBA16: a 256-bit register is a pair of 128-bit halves
  on which every instruction used acts independently; each half is an SSE-shaped accumulator `[L, A]`.  An 8-step puts pixels
  0..3 (coefficients `k[0..4]`) into the low half and 4..7 (`k[4..8]`) into the high half, a 4-step two pixels per half, a 2-step
  one pixel per half, the last coefficient goes to the low half; `ll_buf[0] + ll_buf[2] + half_error` etc. join the halves.
  The AVX2 four-row kernel keeps two rows per register with the SSE4.1 instructions per half (masks proved equal by halves in
  Fir.C02): each of its rows is `Fir.SimdU16x2.pixel`.
-/
import Fir.Model.SimdU16x2
namespace Fir.SimdU16x2A
open Fir.Gen Fir.SimdU8x4 Fir.SimdVertU16 Fir.SimdU16x2

def h4 (p0 p1 p2 p3 : List Int) (s src : List Int) (k0 k1 k2 k3 : Int) : List Int :=
  add64 (add64 (add64 (add64 s (mulEpi32 (pshufb src p0) k0)) (mulEpi32 (pshufb src p1) k1)) (mulEpi32 (pshufb src p2) k2))
    (mulEpi32 (pshufb src p3) k3)

def h2 (p0 p1 : List Int) (s src : List Int) (k0 k1 : Int) : List Int :=
  add64 (add64 s (mulEpi32 (pshufb src p0) k0)) (mulEpi32 (pshufb src p1) k1)

def h1 (p0 : List Int) (s src : List Int) (k : Int) : List Int := add64 s (mulEpi32 (pshufb src p0) k)

abbrev St2 := List Int × List Int

def acc8A (s : St2) (row : List Int) (x : Nat) (k0 k1 k2 k3 k4 k5 k6 k7 : Int) : St2 :=
  (h4 u16x2_avx2_one_p0_lo u16x2_avx2_one_p1_lo u16x2_avx2_one_p2_lo u16x2_avx2_one_p3_lo s.1 (srcLA row x 4) k0 k1 k2 k3,
   h4 u16x2_avx2_one_p0_hi u16x2_avx2_one_p1_hi u16x2_avx2_one_p2_hi u16x2_avx2_one_p3_hi s.2 (srcLA row (x + 4) 4) k4 k5 k6 k7)

def acc4A (s : St2) (row : List Int) (x : Nat) (k0 k1 k2 k3 : Int) : St2 :=
  (h2 u16x2_avx2_one_p0_lo u16x2_avx2_one_p1_lo s.1 (srcLA row x 2) k0 k1,
   h2 u16x2_avx2_one_p0_hi u16x2_avx2_one_p1_hi s.2 (srcLA row (x + 2) 2) k2 k3)

def acc2A (s : St2) (row : List Int) (x : Nat) (k0 k1 : Int) : St2 :=
  (h1 u16x2_avx2_one_p0_lo s.1 (srcLA row x 1) k0, h1 u16x2_avx2_one_p0_hi s.2 (srcLA row (x + 1) 1) k1)

def acc1A (s : St2) (row : List Int) (x : Nat) (k : Int) : St2 :=
  (h1 u16x2_avx2_one_p0_lo s.1 (srcLA row x 1) k, h1 u16x2_avx2_one_p0_hi s.2 (List.replicate 16 0) 0)

def loopA (row : List Int) : List Int → Nat → St2 → St2
  | k0 :: k1 :: k2 :: k3 :: k4 :: k5 :: k6 :: k7 :: ks, x, s => loopA row ks (x + 8) (acc8A s row x k0 k1 k2 k3 k4 k5 k6 k7)
  | [k0, k1, k2, k3, k4, k5, k6], x, s => acc1A (acc2A (acc4A s row x k0 k1 k2 k3) row (x + 4) k4 k5) row (x + 6) k6
  | [k0, k1, k2, k3, k4, k5], x, s => acc2A (acc4A s row x k0 k1 k2 k3) row (x + 4) k4 k5
  | [k0, k1, k2, k3, k4], x, s => acc1A (acc4A s row x k0 k1 k2 k3) row (x + 4) k4
  | [k0, k1, k2, k3], x, s => acc4A s row x k0 k1 k2 k3
  | [k0, k1, k2], x, s => acc1A (acc2A s row x k0 k1) row (x + 2) k2
  | [k0, k1], x, s => acc2A s row x k0 k1
  | [k], x, s => acc1A s row x k
  | [], _, s => s

def pixelA (p : Nat) (row : List Int) (start : Nat) (ks : List Int) : List Int :=
  let h := wrap64 (2 ^ (p - 1))
  let s := loopA row ks start ([0, 0], [0, 0])
  (List.range 2).map fun c => (clip32 (wrap64 (wrap64 (s.1.getD c 0 + s.2.getD c 0) + h)) p : Int)

end Fir.SimdU16x2A
