/-
  Fir.Model.RowCursor - the row-selection loop of `resample_nearest` (src/resizer.rs) as the state
  machine it is: a forward-only row iterator `src_rows = src_view.iter_rows(first)`, the cached current
  row, and `next_row_y`.  Per destination row:

      let req_row_y = (y_in as usize).min(max_src_y);
      if cur_row.is_none() || next_row_y <= req_row_y {
          cur_row = src_rows.nth(req_row_y.saturating_sub(next_row_y));
          next_row_y = req_row_y + 1;
      }
      let Some(in_row) = cur_row else { break };

  `Fir.nearestPass` indexes the source directly; `Fir.C11.row_cursor_eq_direct` proves that the loop
  above selects exactly those rows, for every non-decreasing sequence of requested rows.
-/
namespace Fir.RowCursor

structure Cursor where
  next : Nat            -- `next_row_y`
  pos  : Nat            -- index of the row `src_rows.next()` would yield
  cur  : Option Nat     -- `cur_row` (as a source row index)
  deriving Repr, DecidableEq

/-- `iter.nth(k)` on an iterator over rows `pos, pos+1, .., H-1` -/
def nth (H : Nat) (pos k : Nat) : Option Nat × Nat :=
  (if pos + k < H then some (pos + k) else none, pos + k + 1)

/-- one destination row -/
def step (H : Nat) (c : Cursor) (req : Nat) : Cursor :=
  if c.cur.isNone ∨ c.next ≤ req then
    let r := nth H c.pos (req - c.next)          -- `saturating_sub`
    { next := req + 1, pos := r.2, cur := r.1 }
  else c

/-- the rows handed to the destination rows, stopping at the first `None` (`break`) -/
def run (H : Nat) : Cursor → List Nat → List Nat
  | _, [] => []
  | c, req :: reqs =>
    let c' := step H c req
    match c'.cur with
    | some r => r :: run H c' reqs
    | none => []

/-- `let mut src_rows = src_view.iter_rows(first); let mut cur_row = None; next_row_y = first` -/
def init (first : Nat) : Cursor := { next := first, pos := first, cur := none }

end Fir.RowCursor
