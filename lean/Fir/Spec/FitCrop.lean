/-
  Fir.Spec.FitCrop - the ideal (exact rational) fit-into-destination crop box.
  `eps ≥ 0` is the tolerance under which the source already counts as having the required aspect
  ratio (f64::EPSILON in the code; 0 gives the pure mathematical definition).
-/
import Mathlib.Algebra.Order.Field.Basic
import Mathlib.Tactic.Linarith
import Mathlib.Tactic.FieldSimp
import Mathlib.Tactic.Ring
namespace Fir.Spec

/-- (left, top, width, height) -/
noncomputable def fitQ (eps sw sh dw dh cx cy : ℚ) : ℚ × ℚ × ℚ × ℚ :=
  let cx := max 0 (min cx 1)
  let cy := max 0 (min cy 1)
  let ir := sw / sh
  let rr := dw / dh
  let cw := if |ir - rr| < eps then sw else if ir ≥ rr then rr * sh else sw
  let ch := if |ir - rr| < eps then sh else if ir ≥ rr then sh else sw / rr
  ((sw - cw) * cx, (sh - ch) * cy, cw, ch)

/-- the same computation in the operation order of the code, every arithmetic operation rounded by an
    arbitrary `fl` (the conversions `u32 as f64` are exact) -/
noncomputable def fitF (fl : ℚ → ℚ) (eps sw sh dw dh cx cy : ℚ) : ℚ × ℚ × ℚ × ℚ :=
  let cx := max 0 (min cx 1)
  let cy := max 0 (min cy 1)
  let ir := fl (sw / sh)
  let rr := fl (dw / dh)
  let same := |fl (ir - rr)| < eps
  let cw := if same then sw else if ir ≥ rr then fl (rr * sh) else sw
  let ch := if same then sh else if ir ≥ rr then sh else fl (sw / rr)
  (fl (fl (sw - cw) * cx), fl (fl (sh - ch) * cy), cw, ch)

end Fir.Spec
