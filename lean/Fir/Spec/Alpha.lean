/-
  Fir.Spec.Alpha - what C06 demands of one colour component, stated without reference to the code.
-/
import Fir.Model.Basic
namespace Fir.Spec

/-- round-half-up of `c * a / m` -/
def mulExact (m c a : Nat) : Nat := (2 * (c * a) + m) / (2 * m)

/-- `got` is an acceptable result of dividing colour `c` by alpha `a` at depth `m`:
    0 for `a = 0`, otherwise one of the two integers neighbouring `c * m / a`, saturated at `m` -/
def divFaithful (m c a got : Nat) : Prop :=
  if a = 0 then got = 0
  else got = min m (c * m / a) ∨ got = min m ((c * m + a - 1) / a)

instance (m c a got : Nat) : Decidable (divFaithful m c a got) := by
  unfold divFaithful; infer_instance

end Fir.Spec
