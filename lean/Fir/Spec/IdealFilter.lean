/-
  Fir.Spec.IdealFilter - the ideal resampling weights in exact rational arithmetic, stated without
  reference to the code: the polynomial kernels (box, bilinear, Catmull-Rom, Mitchell) and the normalised
  window of one destination sample.  Core `Rat` only (no Mathlib) so that the driver can evaluate it.
-/
namespace Fir.Spec

def qabs (x : Rat) : Rat := if x < 0 then -x else x

def qBox (x : Rat) : Rat := if -1/2 < x ∧ x ≤ 1/2 then 1 else 0

def qBilinear (x : Rat) : Rat :=
  let x := qabs x
  if x < 1 then 1 - x else 0

def qCatmull (x : Rat) : Rat :=
  let a : Rat := -1/2
  let x := qabs x
  if x < 1 then ((a + 2) * x - (a + 3)) * x * x + 1
  else if x < 2 then (((x - 5) * x + 8) * x - 4) * a
  else 0

def qMitchell (x : Rat) : Rat :=
  let x := qabs x
  if x < 1 then (7 * x / 6 - 2) * x * x + 16 / 18
  else if x < 2 then ((2 - 7 * x / 18) * x - 10 / 3) * x + 16 / 9
  else 0

structure QFilter where
  f : Rat → Rat
  support : Rat

def qFilterOfName : String → Option QFilter
  | "box" => some ⟨qBox, 1/2⟩
  | "bilinear" => some ⟨qBilinear, 1⟩
  | "catmullrom" => some ⟨qCatmull, 2⟩
  | "mitchell" => some ⟨qMitchell, 2⟩
  | _ => none

/-- geometry of destination sample `o`: (first source index, number of taps, centre − ½, kernel scale) -/
def idealGeom (inSize : Nat) (in0 in1 : Rat) (outSize : Nat) (support : Rat) (adaptive : Bool) (o : Nat) : Nat × Nat × Rat × Rat :=
  let scale := (in1 - in0) / (outSize : Rat)
  let fscale := if adaptive ∧ 1 < scale then scale else 1
  let radius := support * fscale
  let center := in0 + ((o : Rat) + 1/2) * scale
  let xmin := (max 0 (center - radius).floor).toNat
  let xmax := min inSize (center + radius).ceil.toNat
  (xmin, xmax - xmin, center - 1/2, fscale)

/-- raw (un-normalised) kernel values over the window of destination sample `o` -/
def idealRaw (inSize : Nat) (in0 in1 : Rat) (outSize : Nat) (flt : QFilter) (adaptive : Bool) (o : Nat) : Nat × List Rat :=
  let (xmin, n, c, fscale) := idealGeom inSize in0 in1 outSize flt.support adaptive o
  (xmin, (List.range n).map fun i => flt.f ((((xmin + i : Nat) : Rat) - c) / fscale))

/-- normalise a window to sum one (left alone when its sum vanishes) -/
def normalise (ws : List Rat) : List Rat :=
  let W := ws.sum
  if W = 0 then ws else ws.map (· / W)

/-- ideal weights of destination sample `o`: first source index and the normalised kernel values -/
def idealWeights (inSize : Nat) (in0 in1 : Rat) (outSize : Nat) (flt : QFilter) (adaptive : Bool) (o : Nat) : Nat × List Rat :=
  let (s, ws) := idealRaw inSize in0 in1 outSize flt adaptive o
  (s, normalise ws)

end Fir.Spec
