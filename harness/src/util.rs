//! Shared utilities of the correspondence harness: PRNG, hex transport, image construction,
//! dispatch on pixel types, CPU-extension names, panic capture.

use fast_image_resize as fir;
use fir::images::Image;
use fir::pixels::*;
use fir::{CpuExtensions, PixelType};
use std::fmt::Write as _;

/// splitmix64: every random choice of a run derives from one state seeded by VERIF_SEED.
#[derive(Clone)]
pub struct Rng(pub u64);

impl Rng {
    pub fn new(seed: u64) -> Self {
        Rng(seed.wrapping_mul(0x9E3779B97F4A7C15).wrapping_add(0x1234_5678_9abc_def1))
    }
    pub fn next(&mut self) -> u64 {
        self.0 = self.0.wrapping_add(0x9E3779B97F4A7C15);
        let mut z = self.0;
        z = (z ^ (z >> 30)).wrapping_mul(0xBF58476D1CE4E5B9);
        z = (z ^ (z >> 27)).wrapping_mul(0x94D049BB133111EB);
        z ^ (z >> 31)
    }
    /// uniform in [0, n)
    pub fn below(&mut self, n: u64) -> u64 {
        if n == 0 {
            0
        } else {
            self.next() % n
        }
    }
    /// uniform in [lo, hi]
    pub fn range(&mut self, lo: u64, hi: u64) -> u64 {
        lo + self.below(hi - lo + 1)
    }
    pub fn chance(&mut self, num: u64, den: u64) -> bool {
        self.below(den) < num
    }
    pub fn pick<'a, T>(&mut self, xs: &'a [T]) -> &'a T {
        &xs[self.below(xs.len() as u64) as usize]
    }
    pub fn f64_unit(&mut self) -> f64 {
        (self.next() >> 11) as f64 / (1u64 << 53) as f64
    }
}

#[derive(Clone, Copy, PartialEq, Eq, Debug)]
pub enum Kind {
    U8,
    U16,
    I32,
    F32,
}

impl Kind {
    pub fn bytes(self) -> usize {
        match self {
            Kind::U8 => 1,
            Kind::U16 => 2,
            Kind::I32 | Kind::F32 => 4,
        }
    }
    pub fn max(self) -> u64 {
        match self {
            Kind::U8 => 255,
            Kind::U16 => 65535,
            Kind::I32 => i32::MAX as u64,
            Kind::F32 => 0,
        }
    }
}

pub const ALL_TYPES: [PixelType; 13] = [
    PixelType::U8,
    PixelType::U8x2,
    PixelType::U8x3,
    PixelType::U8x4,
    PixelType::U16,
    PixelType::U16x2,
    PixelType::U16x3,
    PixelType::U16x4,
    PixelType::I32,
    PixelType::F32,
    PixelType::F32x2,
    PixelType::F32x3,
    PixelType::F32x4,
];

pub const ALPHA_TYPES: [PixelType; 6] = [
    PixelType::U8x2,
    PixelType::U8x4,
    PixelType::U16x2,
    PixelType::U16x4,
    PixelType::F32x2,
    PixelType::F32x4,
];

pub fn pt_name(pt: PixelType) -> &'static str {
    match pt {
        PixelType::U8 => "U8",
        PixelType::U8x2 => "U8x2",
        PixelType::U8x3 => "U8x3",
        PixelType::U8x4 => "U8x4",
        PixelType::U16 => "U16",
        PixelType::U16x2 => "U16x2",
        PixelType::U16x3 => "U16x3",
        PixelType::U16x4 => "U16x4",
        PixelType::I32 => "I32",
        PixelType::F32 => "F32",
        PixelType::F32x2 => "F32x2",
        PixelType::F32x3 => "F32x3",
        PixelType::F32x4 => "F32x4",
        _ => "?",
    }
}

pub fn pt_kind(pt: PixelType) -> Kind {
    match pt {
        PixelType::U8 | PixelType::U8x2 | PixelType::U8x3 | PixelType::U8x4 => Kind::U8,
        PixelType::U16 | PixelType::U16x2 | PixelType::U16x3 | PixelType::U16x4 => Kind::U16,
        PixelType::I32 => Kind::I32,
        _ => Kind::F32,
    }
}

pub fn pt_comps(pt: PixelType) -> usize {
    pt.size() / pt_kind(pt).bytes()
}

pub fn exts() -> Vec<(&'static str, CpuExtensions)> {
    let mut v = vec![("none", CpuExtensions::None)];
    if CpuExtensions::Sse4_1.is_supported() {
        v.push(("sse4", CpuExtensions::Sse4_1));
    }
    if CpuExtensions::Avx2.is_supported() {
        v.push(("avx2", CpuExtensions::Avx2));
    }
    v
}

/// components (raw bit patterns, little-endian in memory) -> bytes
pub fn comps_to_bytes(kind: Kind, comps: &[u64]) -> Vec<u8> {
    let mut out = Vec::with_capacity(comps.len() * kind.bytes());
    for &c in comps {
        match kind {
            Kind::U8 => out.push(c as u8),
            Kind::U16 => out.extend_from_slice(&(c as u16).to_le_bytes()),
            Kind::I32 | Kind::F32 => out.extend_from_slice(&(c as u32).to_le_bytes()),
        }
    }
    out
}

pub fn bytes_to_comps(kind: Kind, bytes: &[u8]) -> Vec<u64> {
    match kind {
        Kind::U8 => bytes.iter().map(|&b| b as u64).collect(),
        Kind::U16 => bytes
            .chunks_exact(2)
            .map(|c| u16::from_le_bytes([c[0], c[1]]) as u64)
            .collect(),
        _ => bytes
            .chunks_exact(4)
            .map(|c| u32::from_le_bytes([c[0], c[1], c[2], c[3]]) as u64)
            .collect(),
    }
}

/// hex transport: one fixed-width big-endian number per component
pub fn comps_hex(kind: Kind, comps: &[u64]) -> String {
    let w = kind.bytes() * 2;
    let mut s = String::with_capacity(comps.len() * w);
    for &c in comps {
        match w {
            2 => write!(s, "{:02x}", c & 0xff).unwrap(),
            4 => write!(s, "{:04x}", c & 0xffff).unwrap(),
            _ => write!(s, "{:08x}", c & 0xffff_ffff).unwrap(),
        }
    }
    s
}

pub fn bytes_hex(kind: Kind, bytes: &[u8]) -> String {
    comps_hex(kind, &bytes_to_comps(kind, bytes))
}

/// An owned image whose buffer is 16-byte aligned regardless of the allocator.
pub fn image_from_comps(w: u32, h: u32, pt: PixelType, comps: &[u64]) -> Image<'static> {
    let mut img = Image::new(w, h, pt);
    let bytes = comps_to_bytes(pt_kind(pt), comps);
    img.buffer_mut()[..bytes.len()].copy_from_slice(&bytes);
    img
}

pub fn image_comps(img: &Image) -> Vec<u64> {
    bytes_to_comps(pt_kind(img.pixel_type()), img.buffer())
}

/// run `f`, mapping a panic to Err(message)
pub fn catch<T>(f: impl FnOnce() -> T) -> Result<T, String> {
    let r = std::panic::catch_unwind(std::panic::AssertUnwindSafe(f));
    r.map_err(|e| {
        let m = if let Some(s) = e.downcast_ref::<&str>() {
            s.to_string()
        } else if let Some(s) = e.downcast_ref::<String>() {
            s.clone()
        } else {
            "panic".to_string()
        };
        m.replace(['\n', '\r', '\t'], "_")
    })
}

static CURRENT_FILE: std::sync::OnceLock<String> = std::sync::OnceLock::new();

/// where the case that is about to be executed gets recorded (so that a crash / abort of the whole
/// process can be attributed to its input by ./check)
pub fn set_current_file(path: String) {
    let _ = CURRENT_FILE.set(path);
}

pub fn note_current(desc: &str) {
    if let Some(p) = CURRENT_FILE.get() {
        let d: String = desc.chars().take(1500).collect();
        let _ = std::fs::write(p, d);
    }
}

pub fn clear_current() {
    if let Some(p) = CURRENT_FILE.get() {
        let _ = std::fs::remove_file(p);
    }
}

pub fn silence_panics() {
    std::panic::set_hook(Box::new(|_| {}));
}

/// Dispatch a generic expression on a run-time pixel type.
#[macro_export]
macro_rules! with_pixel_type {
    ($pt:expr, $P:ident => $body:expr) => {
        match $pt {
            fast_image_resize::PixelType::U8 => { type $P = fast_image_resize::pixels::U8; $body }
            fast_image_resize::PixelType::U8x2 => { type $P = fast_image_resize::pixels::U8x2; $body }
            fast_image_resize::PixelType::U8x3 => { type $P = fast_image_resize::pixels::U8x3; $body }
            fast_image_resize::PixelType::U8x4 => { type $P = fast_image_resize::pixels::U8x4; $body }
            fast_image_resize::PixelType::U16 => { type $P = fast_image_resize::pixels::U16; $body }
            fast_image_resize::PixelType::U16x2 => { type $P = fast_image_resize::pixels::U16x2; $body }
            fast_image_resize::PixelType::U16x3 => { type $P = fast_image_resize::pixels::U16x3; $body }
            fast_image_resize::PixelType::U16x4 => { type $P = fast_image_resize::pixels::U16x4; $body }
            fast_image_resize::PixelType::I32 => { type $P = fast_image_resize::pixels::I32; $body }
            fast_image_resize::PixelType::F32 => { type $P = fast_image_resize::pixels::F32; $body }
            fast_image_resize::PixelType::F32x2 => { type $P = fast_image_resize::pixels::F32x2; $body }
            fast_image_resize::PixelType::F32x3 => { type $P = fast_image_resize::pixels::F32x3; $body }
            fast_image_resize::PixelType::F32x4 => { type $P = fast_image_resize::pixels::F32x4; $body }
            _ => unreachable!(),
        }
    };
}

/// Collects request lines and the measured distribution of a run.
pub struct Out {
    pub lines: Vec<String>,
    pub dist: std::collections::BTreeMap<String, u64>,
    pub nontrivial: std::collections::BTreeSet<u64>,
    pub samples: Vec<String>,
    /// failures of the implementation against the property's own oracle, found by the harness itself
    pub impl_failures: Vec<String>,
    pub notes: Vec<String>,
}

impl Out {
    pub fn new() -> Self {
        Out {
            lines: Vec::new(),
            dist: Default::default(),
            nontrivial: Default::default(),
            samples: Vec::new(),
            impl_failures: Vec::new(),
            notes: Vec::new(),
        }
    }
    pub fn count(&mut self, key: &str) {
        *self.dist.entry(key.to_string()).or_insert(0) += 1;
    }
    pub fn count_n(&mut self, key: &str, n: u64) {
        *self.dist.entry(key.to_string()).or_insert(0) += n;
    }
    /// register a case: `nontrivial_key` = hash of what makes it distinct (None = trivial case)
    pub fn push(&mut self, line: String, nontrivial_key: Option<u64>) {
        if let Some(k) = nontrivial_key {
            self.nontrivial.insert(k);
        }
        if self.samples.len() < 3 {
            let mut s = line.clone();
            if s.len() > 300 {
                s.truncate(300);
                s.push_str("...");
            }
            self.samples.push(s);
        }
        self.lines.push(line);
    }
}

pub fn fnv(data: &[u8]) -> u64 {
    let mut h: u64 = 0xcbf29ce484222325;
    for &b in data {
        h ^= b as u64;
        h = h.wrapping_mul(0x100000001b3);
    }
    h
}

pub fn json_escape(s: &str) -> String {
    let mut o = String::new();
    for c in s.chars() {
        match c {
            '"' => o.push_str("\\\""),
            '\\' => o.push_str("\\\\"),
            '\n' => o.push_str("\\n"),
            c if (c as u32) < 0x20 => write!(o, "\\u{:04x}", c as u32).unwrap(),
            c => o.push(c),
        }
    }
    o
}

#[allow(dead_code)]
pub fn _types_used(_: U8, _: U8x2) {}
