//! C03 - nothing reachable through the safe API may crash, panic or touch memory it does not own:
//! malformed stream (zero sizes, NaN / infinite / negative / denormal / edge-flush crops, every
//! SuperSampling multiplicity, oversized and strided buffers, custom kernels with large lobes, wide
//! and tiny supports, reused resizers), with source and destination placed against guard pages.
//! The case being executed is recorded in `current.txt` so that a crash is attributed to its input.

use crate::c01::{random_crop, random_size};
use crate::with_pixel_type;
use crate::rcase::*;
use crate::util::*;
use crate::views::*;
use fast_image_resize as fir;
use fir::{PixelType, Resizer};

fn odd_f64(rng: &mut Rng, e: f64) -> f64 {
    let specials = [
        f64::NAN, f64::INFINITY, f64::NEG_INFINITY, -1.0, -0.0, 0.0, 5e-324, 1e-310, 1e-13, 0.5, 1.0, e - 1.0,
        f64::from_bits(e.to_bits().wrapping_sub(1)), e, f64::from_bits(e.to_bits() + 1), e + 1.0, 1e300, -1e300, 2.2e-16,
    ];
    if rng.chance(2, 3) { *rng.pick(&specials) } else { rng.f64_unit() * e * 1.2 - 0.1 * e }
}

/// largest sum of |w| over the windows of both passes (the documented head-room is 4)
fn headroom(case: &Case, sw: u32, sh: u32, dw: u32, dh: u32) -> f64 {
    let (l, t, w, h) = match case.crop {
        CropSpec::Box(l, t, w, h) => (l, t, w, h),
        _ => (0.0, 0.0, sw as f64, sh as f64),
    };
    let (ft, adaptive) = match case.alg.alg {
        fir::ResizeAlg::Convolution(f) => (f, true),
        fir::ResizeAlg::Interpolation(f) => (f, false),
        fir::ResizeAlg::SuperSampling(f, _) => (f, true),
        _ => return 0.0,
    };
    let mut worst: f64 = 0.0;
    for (n, a, b, o) in [(sw, l, l + w, dw), (sh, t, t + h, dh)] {
        if let Ok(c) = catch(|| fir::verif_hooks::coefficients(n, a, b, o, ft, adaptive)) {
            if c.window_size > 0 {
                for ch in c.values.chunks(c.window_size) {
                    let s: f64 = ch.iter().map(|x| x.abs()).sum();
                    if !(s <= worst) {
                        worst = if s.is_nan() { f64::INFINITY } else { s.max(worst) };
                    }
                }
            }
        }
    }
    worst
}

pub fn generate(out: &mut Out, seed: u64, thorough: bool, _outdir: &str) {
    let mut rng = Rng::new(seed ^ 0xC03);
    GUARD_PAGES.store(true, std::sync::atomic::Ordering::Relaxed);
    let n = if thorough { 16000 } else { 3600 };
    let ex = exts();
    let mut shared = Resizer::new();
    for i in 0..n {
        let pt = ALL_TYPES[i % 13];
        let zero = rng.chance(1, 12);
        let (sw, sh) = (if zero && rng.chance(1, 2) { 0 } else { random_size(&mut rng, 30) }, if zero && rng.chance(1, 3) { 0 } else { random_size(&mut rng, 30) });
        let (dw, dh) = (if zero && rng.chance(1, 2) { 0 } else { random_size(&mut rng, 30) }, if zero && rng.chance(1, 3) { 0 } else { random_size(&mut rng, 30) });
        let (ext_name, ext) = ex[rng.below(ex.len() as u64) as usize];
        let mode = rng.below(5);
        let mut case = Case {
            pt,
            ext_name,
            ext,
            sshape: plain(sw, sh),
            dshape: plain(dw, dh),
            alg: AlgSpec::random(&mut rng),
            crop: CropSpec::None,
            alpha: rng.chance(1, 2),
            sbuf: Vec::new(),
            dynamic: rng.chance(1, 4),
            custom: None,
        };
        // crop boxes: valid ones of every kind, and malformed ones
        case.crop = match rng.below(4) {
            0 if sw > 0 && sh > 0 => random_crop(&mut rng, sw, sh),
            1 => CropSpec::Box(odd_f64(&mut rng, sw as f64), odd_f64(&mut rng, sh as f64), odd_f64(&mut rng, sw as f64), odd_f64(&mut rng, sh as f64)),
            2 => CropSpec::Fit(odd_f64(&mut rng, 1.0), odd_f64(&mut rng, 1.0)),
            _ => CropSpec::None,
        };
        // NaN centerings stay in: C15 excludes them, C03 does not - `fit_into_destination(Some((NaN, _)))` is a call a safe caller
        // can make, and it must end in Ok or a documented error (today: the NaN crop box is rejected as SrcCroppingError)
        if let CropSpec::Fit(x, y) = case.crop {
            if x.is_nan() || y.is_nan() {
                out.count("fit:nan-centering");
            }
        }
        if sw > 0 && sh > 0 && rng.chance(1, 9) {
            // boxes within one ulp of the right / bottom edge (Nearest reads the last column / row)
            case.crop = crate::rprops::flush_crop(&mut rng, sw, sh);
            if rng.chance(1, 2) {
                case.alg = AlgSpec::nearest();
            }
        }
        // algorithms: every multiplicity incl. 0 and 255, custom kernels
        match rng.below(6) {
            0 => case.alg = AlgSpec::ss(rng.below(7) as usize, *rng.pick(&[0u8, 1, 2, 7, 100, 255])),
            1 | 2 => {
                let c = match rng.below(5) {
                    0 => Custom::Lobes(1.0, 0.1 + 0.3 * rng.f64_unit()),        // inside the head-room
                    1 => Custom::Lobes(1.0, 0.45 + 0.049 * rng.f64_unit()),     // large lobes: normalised weights up to ~500
                    2 => Custom::Lobes(0.0, -1.0),                              // ring kernel: vanishes around 0
                    3 => Custom::Wide(*rng.pick(&[0.01, 0.3, 2.5, 17.0, 60.0, 4.0e9, 1.0e19, 1.0e300, f64::MAX])),   // incl. valid but huge supports
                    _ => Custom::Scaled(*rng.pick(&[1.0, 1e-300, 1e300, -1.0, 3.0])),
                };
                case.custom = Some(c);
                case.alg = AlgSpec::custom(c, rng.below(3) as u8, rng.range(1, 3) as u8);
            }
            _ => {}
        }
        // big down-scales with custom kernels inside the head-room: windows of hundreds of taps reach the highest
        // fixed-point precision, where the accumulators have the least room
        if rng.chance(1, 14) {
            let long = rng.range(300, 1500) as u32;
            let horiz = rng.chance(1, 2);
            let c = Custom::Lobes(1.0, 0.15 + 0.3 * rng.f64_unit());
            case.custom = Some(c);
            case.alg = AlgSpec::custom(c, 0, 1);
            case.crop = CropSpec::None;
            case.dynamic = false;
            case.sshape = if horiz { plain(long, rng.range(1, 3) as u32) } else { plain(rng.range(1, 3) as u32, long) };
            case.dshape = plain(rng.range(1, 2) as u32, rng.range(1, 2) as u32);
        }
        // containers
        if !case.dynamic && sw > 0 && sh > 0 && dw > 0 && dh > 0 && rng.chance(1, 3) {
            case.sshape = placements(sw, sh, rng.below(PLACEMENTS as u64) as usize);
            case.dshape = placements(dw, dh, rng.below(PLACEMENTS as u64) as usize);
        }
        // single-pass resizes (integer crop whose height / width equals the destination's) into mutable cropped views with
        // parent rows and columns around them: the SIMD kernels' leftover-row paths (iter_rows_mut(start_row > 0))
        if sw > 0 && sh > 0 && rng.chance(1, 8) {
            let l = rng.below(sw as u64) as u32;
            let t = rng.below(sh as u64) as u32;
            let w = rng.range(1, (sw - l) as u64) as u32;
            let h = rng.range(1, (sh - t) as u64) as u32;
            let (ndw, ndh) = if rng.chance(1, 2) { (random_size(&mut rng, 30), h) } else { (w, random_size(&mut rng, 30)) };
            case.crop = CropSpec::Box(l as f64, t as f64, w as f64, h as f64);
            case.custom = None;
            case.alg = if rng.chance(1, 2) { AlgSpec::conv(rng.below(7) as usize) } else { AlgSpec::interp(rng.below(7) as usize) };
            case.dynamic = false;
            case.sshape = placements(sw, sh, rng.below(PLACEMENTS as u64) as usize);
            case.dshape = placements(ndw, ndh, *rng.pick(&[2usize, 3, 4]));
            out.count("single-pass-into-view");
        }
        case.sbuf = random_comps(&mut rng, pt, case.sshape.buf_len(), mode);
        if case.dynamic && (case.sshape.depth() > 0 || case.dshape.depth() > 0) {
            case.dynamic = false;
        }
        let (sw, sh, dw, dh) = (case.sshape.width(), case.sshape.height(), case.dshape.width(), case.dshape.height());
        let hr = headroom(&case, sw, sh, dw, dh);
        let in_guard = hr < 3.999 && hr.is_finite();
        let prefix = line_prefix(&case);
        // record the case before executing it: a crash is then attributed to this input
        let reuse = rng.chance(1, 3);
        let got = if reuse { run_case_with(&case, &mut shared, 0xA5) } else { run_case(&case, 0xA5) };
        let outcome = got.split(':').next().unwrap().to_string();
        out.count(&format!("outcome:{}", outcome));
        out.count(&format!("headroom:{}", if in_guard { "inside" } else { "outside" }));
        out.count(&format!("alg:{}", case.alg.name.split(':').next().unwrap()));
        if case.custom.is_some() {
            out.count("custom-kernel");
        }
        // outside the head-room panics (integer overflow checks) are allowed, crashes are not, and the
        // wrapped arithmetic is not modelled: only the outcome class is judged
        let line = format!("{} fill=a5 got={} guard={} check=nopanic", prefix, got, if in_guard { "in" } else { "out" });
        let k = fnv(line.as_bytes());
        out.push(line, Some(k));
    }
    // zero-sized and tiny images on buffers of every length and misalignment through the byte-buffer constructors, and then
    // *used*: an image a constructor accepts must be usable by every safe API without a panic
    {
        use fir::images::{Image, ImageRef};
        let mut backing = vec![0u64; 64];
        let mut md = fir::MulDiv::new();
        let mut rz = Resizer::new();
        for &pt in ALL_TYPES.iter() {
            let psize = pt.size();
            let align = with_pixel_type!(pt, P => std::mem::align_of::<P>());
            for &(w, h) in &[(0u32, 0u32), (0, 5), (5, 0), (1, 1), (2, 3)] {
                let need = w as usize * h as usize * psize;
                for &len in &[0usize, 1, psize, need, need + 1, need + psize, 200] {
                    for mis in 0..4usize {
                        for kind in ["image_ref", "image_slice"] {
                            let bytes: &mut [u8] = unsafe { std::slice::from_raw_parts_mut((backing.as_mut_ptr() as *mut u8).add(mis), len) };
                            let mut used = String::from("-");
                            let r: Result<Result<(), String>, String> = catch(|| match kind {
                                "image_ref" => ImageRef::new(w, h, bytes, pt).map(|_| ()).map_err(|e| format!("err:{:?}", e)),
                                _ => Image::from_slice_u8(w, h, bytes, pt).map(|_| ()).map_err(|e| format!("err:{:?}", e)),
                            });
                            let got = match &r {
                                Ok(Ok(())) => "ok".to_string(),
                                Ok(Err(e)) => e.clone(),
                                Err(p) => format!("panic:{}", p.replace(' ', "_")),
                            };
                            if got == "ok" {
                                let u = catch(|| {
                                    let mut log = Vec::new();
                                    if kind == "image_ref" {
                                        let src = ImageRef::new(w, h, bytes, pt).unwrap();
                                        let mut dst = Image::new(3, 2, pt);
                                        log.push(rz.resize(&src, &mut dst, None).is_ok());
                                        let mut dst2 = Image::new(w, h, pt);
                                        log.push(md.multiply_alpha(&src, &mut dst2).is_ok());
                                        log.push(md.divide_alpha(&src, &mut dst2).is_ok());
                                        log.push(fir::change_type_of_pixel_components(&src, &mut dst2).is_ok());
                                        log.push(fir::create_srgb_mapper().forward_map(&src, &mut dst2).is_ok());
                                    } else {
                                        let src = Image::new(3, 2, pt);
                                        let mut dst = Image::from_slice_u8(w, h, bytes, pt).unwrap();
                                        log.push(rz.resize(&src, &mut dst, None).is_ok());
                                        log.push(md.multiply_alpha_inplace(&mut dst).is_ok());
                                        log.push(md.divide_alpha_inplace(&mut dst).is_ok());
                                        log.push(fir::create_gamma_22_mapper().forward_map_inplace(&mut dst).is_ok());
                                        let src2 = Image::new(w, h, pt);
                                        log.push(fir::change_type_of_pixel_components(&src2, &mut dst).is_ok());
                                        let _ = dst.copy();
                                    }
                                    log.iter().map(|b| if *b { '1' } else { '0' }).collect::<String>()
                                });
                                used = match u {
                                    Ok(l) => format!("done:{}", l),
                                    Err(p) => format!("panic:{}", p.replace(' ', "_")),
                                };
                            }
                            out.count(&format!("ctor-then-use:{}:{}:{}", kind, got.split(':').next().unwrap(), used.split(':').next().unwrap()));
                            let line = format!("ctor kind={} pt={} psize={} W={} H={} len={} mis={} align={} got={} use={}", kind, pt_name(pt), psize, w, h, len, mis, align, got, used);
                            let k = fnv(line.as_bytes());
                            out.push(line, Some(k));
                        }
                    }
                }
            }
        }
    }
    let _ = PixelType::U8;
}
