//! C14 - split_by_height / split_by_width (and the mutable variants): exhaustive over small views,
//! all (start, size, parts) triples incl. invalid ones, every container kind, split-of-split.

use crate::util::*;
use crate::views::*;
use crate::{with_view, with_view_mut};
use fast_image_resize as fir;
use fir::pixels::I32;
use fir::{ImageView, ImageViewMut};
use std::num::NonZeroU32;

fn rows_of(v: &impl ImageView<Pixel = I32>) -> String {
    let rows: Vec<String> = v
        .iter_rows(0)
        .map(|r| r.iter().map(|p| p.0.to_string()).collect::<Vec<_>>().join(","))
        .collect();
    format!("{}x{}:{}", v.width(), v.height(), rows.join("/"))
}

fn parts_desc<V: ImageView<Pixel = I32>>(parts: Option<Vec<V>>) -> String {
    match parts {
        None => "none".to_string(),
        Some(ps) => ps.iter().map(|p| rows_of(p)).collect::<Vec<_>>().join("|"),
    }
}

fn tagged(n: usize) -> Vec<I32> {
    (0..n).map(|i| I32::new(i as i32)).collect()
}

fn split_ro(v: &impl ImageView<Pixel = I32>, axis: char, start: u32, size: u32, parts: u32) -> String {
    let (s, p) = (NonZeroU32::new(size).unwrap(), NonZeroU32::new(parts).unwrap());
    if axis == 'h' {
        parts_desc(v.split_by_height(start, s, p))
    } else {
        parts_desc(v.split_by_width(start, s, p))
    }
}

/// mutable split: read the parts, then write `1000*(part+1) + tag` through every part
fn split_rw(v: &mut impl ImageViewMut<Pixel = I32>, axis: char, start: u32, size: u32, parts: u32) -> String {
    let (s, p) = (NonZeroU32::new(size).unwrap(), NonZeroU32::new(parts).unwrap());
    macro_rules! go {
        ($parts:expr) => {
            match $parts {
                None => "none".to_string(),
                Some(mut ps) => {
                    let d = ps.iter().map(|p| rows_of(p)).collect::<Vec<_>>().join("|");
                    for (i, part) in ps.iter_mut().enumerate() {
                        for row in part.iter_rows_mut(0) {
                            for px in row.iter_mut() {
                                px.0 += 1000 * (i as i32 + 1);
                            }
                        }
                    }
                    d
                }
            }
        };
    }
    if axis == 'h' {
        go!(v.split_by_height_mut(start, s, p))
    } else {
        go!(v.split_by_width_mut(start, s, p))
    }
}

pub fn generate(out: &mut Out, seed: u64, thorough: bool) {
    let mut rng = Rng::new(seed ^ 0xC14);
    let maxdim: u32 = if thorough { 12 } else { 7 };
    for w in 1..=maxdim {
        for h in 1..=maxdim {
            for variant in 0..PLACEMENTS {
                // keep the run bounded: all placements for small views, a seeded choice for larger ones
                if (w > 4 || h > 4) && variant != (rng.below(PLACEMENTS as u64) as usize) && !thorough {
                    continue;
                }
                let shape = placements(w, h, variant);
                for axis in ['h', 'w'] {
                    let extent = if axis == 'h' { h } else { w };
                    for start in 0..=extent {
                        for size in 1..=extent + 1 {
                            for parts in 1..=size + 1 {
                                if parts > size + 1 {
                                    continue;
                                }
                                for mutable in [false, true] {
                                    let mut buf = tagged(shape.buf_len());
                                    let r = catch(|| {
                                        if mutable {
                                            with_view_mut!(&shape, buf, I32, v => split_rw(v, axis, start, size, parts))
                                        } else {
                                            with_view!(&shape, buf, I32, v => split_ro(v, axis, start, size, parts))
                                        }
                                    });
                                    let got = match r {
                                        Ok(s) => s,
                                        Err(p) => format!("panic:{}", p.replace(' ', "_")),
                                    };
                                    let bufs = if mutable {
                                        format!(" buf={}", buf.iter().map(|p| p.0.to_string()).collect::<Vec<_>>().join(","))
                                    } else {
                                        String::new()
                                    };
                                    out.count(&format!("axis:{}:mut{}:{}", axis, mutable as u8, if got == "none" { "none" } else { "some" }));
                                    out.count(&format!("depth:{}", shape.depth()));
                                    let line = format!(
                                        "split view={} axis={} start={} size={} parts={} mut={} got={}{}",
                                        shape.desc(), axis, start, size, parts, mutable as u8, got, bufs
                                    );
                                    let key = if got != "none" && parts > 1 { Some(fnv(line.as_bytes())) } else { None };
                                    out.push(line, key);
                                }
                            }
                        }
                    }
                }
            }
        }
    }
    // degenerate views: zero width or zero height
    for (w, h) in [(3u32, 0u32), (0, 3), (0, 0)] {
        let shape = placements(w, h, 0);
        for axis in ['h', 'w'] {
            for (start, size, parts) in [(0u32, 1u32, 1u32), (0, 3, 1), (0, 3, 2), (1, 2, 2)] {
                for mutable in [false, true] {
                    let mut buf = tagged(shape.buf_len());
                    let r = catch(|| {
                        if mutable {
                            with_view_mut!(&shape, buf, I32, v => split_rw(v, axis, start, size, parts))
                        } else {
                            with_view!(&shape, buf, I32, v => split_ro(v, axis, start, size, parts))
                        }
                    });
                    let got = match r {
                        Ok(s) => s,
                        Err(p) => format!("panic:{}", p.replace(' ', "_")),
                    };
                    out.count("degenerate");
                    out.push(format!("split view={} axis={} start={} size={} parts={} mut={} got={}", shape.desc(), axis, start, size, parts, mutable as u8, got), None);
                }
            }
        }
    }
    // split of a split: parts of a first split are split again along both axes
    for _ in 0..(if thorough { 3000 } else { 600 }) {
        let w = rng.range(2, 9) as u32;
        let h = rng.range(2, 9) as u32;
        let shape = placements(w, h, rng.below(PLACEMENTS as u64) as usize);
        let buf = tagged(shape.buf_len());
        let a1 = if rng.chance(1, 2) { 'h' } else { 'w' };
        let a2 = if rng.chance(1, 2) { 'h' } else { 'w' };
        let e1 = if a1 == 'h' { h } else { w };
        let s1 = rng.below(e1 as u64) as u32;
        let n1 = rng.range(1, (e1 - s1) as u64) as u32;
        let k1 = rng.range(1, n1 as u64) as u32;
        let which = rng.below(k1 as u64) as usize;
        let seed2 = rng.next();
        let got = catch(|| {
            with_view!(&shape, buf, I32, v => {
                let (s, p) = (NonZeroU32::new(n1).unwrap(), NonZeroU32::new(k1).unwrap());
                macro_rules! second {
                    ($ps:expr) => {{
                        let ps = $ps.unwrap();
                        let part = &ps[which];
                        let mut r2 = Rng::new(seed2);
                        let e2 = if a2 == 'h' { part.height() } else { part.width() };
                        let s2 = r2.below(e2 as u64) as u32;
                        let n2 = r2.range(1, (e2 - s2) as u64) as u32;
                        let k2 = r2.range(1, n2 as u64) as u32;
                        (s2, n2, k2, split_ro(part, a2, s2, n2, k2))
                    }};
                }
                if a1 == 'h' { second!(v.split_by_height(s1, s, p)) } else { second!(v.split_by_width(s1, s, p)) }
            })
        });
        if let Ok((s2, n2, k2, d)) = got {
            out.count("split-of-split");
            let line = format!(
                "split2 view={} axis1={} start1={} size1={} parts1={} which={} axis2={} start2={} size2={} parts2={} got={}",
                shape.desc(), a1, s1, n1, k1, which, a2, s2, n2, k2, d
            );
            let k = fnv(line.as_bytes());
            out.push(line, Some(k));
        } else {
            out.impl_failures.push(format!("split-of-split panicked: view={} {} {} {} {}", shape.desc(), a1, s1, n1, k1));
        }
    }
}
