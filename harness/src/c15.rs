//! C15 - CropBox::fit_src_into_dst_size: bit-exact mirror, in-bounds / aspect / span / centering,
//! and acceptance of the result by the crop validation of Resizer::resize.

use crate::util::*;
use fast_image_resize as fir;
use fir::images::Image;
use fir::{CropBox, PixelType, ResizeAlg, ResizeOptions, Resizer};

pub fn generate(out: &mut Out, seed: u64, thorough: bool) {
    let mut rng = Rng::new(seed ^ 0xC15);
    let edge: [u32; 16] = [1, 2, 3, 5, 7, 16, 255, 256, 257, 1000, 4093, 32768, 65521, 65533, 65534, 65535];
    let cents: [f64; 12] = [0.0, 0.5, 1.0, -3.0, 7.0, 1.0 / 3.0, 0.999_999_999, 1e-300, f64::INFINITY, f64::NEG_INFINITY, 0.25, -0.0];
    let mut quads: Vec<(u32, u32, u32, u32)> = Vec::new();
    for &a in &edge {
        for &b in &edge {
            for &c in &[1u32, 3, 256, 65535, 640, 7] {
                for &d in &[1u32, 2, 255, 65535, 480, 13] {
                    quads.push((a, b, c, d));
                }
            }
        }
    }
    let n = if thorough { 2_000_000 } else { 60_000 };
    for _ in 0..n {
        let pick = |rng: &mut Rng| -> u32 {
            match rng.below(4) {
                0 => rng.range(1, 64) as u32,
                1 => rng.range(1, 2048) as u32,
                2 => 65535 - rng.below(40) as u32,
                _ => rng.range(1, 65535) as u32,
            }
        };
        let (a, b) = (pick(&mut rng), pick(&mut rng));
        // destinations with the same or nearly the same aspect ratio are the interesting ones
        let (c, d) = match rng.below(4) {
            0 => {
                let k = rng.range(1, 8) as u32;
                ((a / k).max(1), (b / k).max(1))
            }
            1 => (a, (b + rng.below(3) as u32).saturating_sub(1).max(1)),
            _ => (pick(&mut rng), pick(&mut rng)),
        };
        quads.push((a, b, c, d));
    }
    quads.push((0, 5, 3, 3));
    quads.push((5, 5, 0, 3));
    for (qi, &(sw, sh, dw, dh)) in quads.iter().enumerate() {
        let ncent = if qi < 16 * 16 * 36 { 3 } else { 2 };
        for _ in 0..ncent {
            let cx = if rng.chance(2, 3) { *rng.pick(&cents) } else { rng.f64_unit() * 1.5 - 0.25 };
            let cy = if rng.chance(2, 3) { *rng.pick(&cents) } else { rng.f64_unit() * 1.5 - 0.25 };
            let r = catch(|| CropBox::fit_src_into_dst_size(sw, sh, dw, dh, Some((cx, cy))));
            let got = match &r {
                Ok(b) => format!("{:016x},{:016x},{:016x},{:016x}", b.left.to_bits(), b.top.to_bits(), b.width.to_bits(), b.height.to_bits()),
                Err(p) => format!("panic:{}", p.replace(' ', "_")),
            };
            // real resize for small sizes: must never fail with a cropping error
            let resize = if sw <= 64 && sh <= 64 && dw <= 64 && dh <= 64 && sw > 0 && sh > 0 {
                // coordinate-tagged source: pixel (x, y) = [x, y]; the option must act exactly like the explicit crop box
                let mut sbuf = Vec::with_capacity((sw * sh * 2) as usize);
                for y in 0..sh {
                    for x in 0..sw {
                        sbuf.push(x as u8);
                        sbuf.push(y as u8);
                    }
                }
                let src = Image::from_vec_u8(sw, sh, sbuf, PixelType::U8x2).unwrap();
                let mut dst = Image::new(dw, dh, PixelType::U8x2);
                let alg = if qi % 3 == 0 { ResizeAlg::Convolution(fir::FilterType::Bilinear) } else { ResizeAlg::Nearest };
                let opts = ResizeOptions::new().resize_alg(alg).use_alpha(false).fit_into_destination(Some((cx, cy)));
                match catch(|| Resizer::new().resize(&src, &mut dst, &opts)) {
                    Ok(Ok(())) => match &r {
                        Ok(b) => {
                            let mut dst2 = Image::new(dw, dh, PixelType::U8x2);
                            let opts2 = ResizeOptions::new().resize_alg(alg).use_alpha(false).crop(b.left, b.top, b.width, b.height);
                            match catch(|| Resizer::new().resize(&src, &mut dst2, &opts2)) {
                                Ok(Ok(())) if dst2.buffer() == dst.buffer() => "ok".to_string(),
                                Ok(Ok(())) => "differs-from-the-explicit-crop-box".to_string(),
                                Ok(Err(e)) => format!("explicit-crop-err:{:?}", e).replace(' ', ""),
                                Err(p) => format!("panic:{}", p.replace(' ', "_")),
                            }
                        }
                        Err(_) => "ok".to_string(),
                    },
                    Ok(Err(e)) => format!("err:{:?}", e).replace(' ', ""),
                    Err(p) => format!("panic:{}", p.replace(' ', "_")),
                }
            } else {
                "skip".to_string()
            };
            out.count(&format!("resize:{}", if resize == "skip" { "skip" } else if resize == "ok" { "ok" } else { "fail" }));
            if let Ok(b) = &r {
                let branch = if b.width == sw as f64 && b.height == sh as f64 { "full" } else if b.height == sh as f64 { "sides" } else { "topbottom" };
                out.count(&format!("branch:{}", branch));
            }
            let line = format!("fit sw={} sh={} dw={} dh={} cx={:016x} cy={:016x} got={} resize={}", sw, sh, dw, dh, cx.to_bits(), cy.to_bits(), got, resize);
            let k = fnv(line.as_bytes());
            out.push(line, Some(k));
        }
    }
}
