//! L1: the implementation's coefficients through the hook (C01, C03, C10, C18).

use crate::rcase::FILTERS;
use crate::util::*;
use fast_image_resize as fir;

pub fn coeffs_line(in_size: u32, in0: f64, in1: f64, out_size: u32, fi: usize, adaptive: bool) -> String {
    let c = fir::verif_hooks::coefficients(in_size, in0, in1, out_size, FILTERS[fi].1, adaptive);
    let (p16, q16) = fir::verif_hooks::normalize16(&c);
    let (p32, q32) = fir::verif_hooks::normalize32(&c);
    let bounds = c.bounds.iter().map(|(s, n)| format!("{}:{}", s, n)).collect::<Vec<_>>().join(",");
    let vals = c.values.iter().map(|v| format!("{:016x}", v.to_bits())).collect::<Vec<_>>().join(",");
    let q16s = q16.iter().map(|(_, v)| v.iter().map(|k| k.to_string()).collect::<Vec<_>>().join(",")).collect::<Vec<_>>().join("|");
    let q32s = q32.iter().map(|(_, v)| v.iter().map(|k| k.to_string()).collect::<Vec<_>>().join(",")).collect::<Vec<_>>().join("|");
    format!(
        "coeffs in={} in0={:016x} in1={:016x} out={} filter={} adaptive={} ws={} bounds={} vals={} p16={} q16={} p32={} q32={}",
        in_size, in0.to_bits(), in1.to_bits(), out_size, FILTERS[fi].0, adaptive as u8, c.window_size, bounds, vals, p16, q16s, p32, q32s
    )
}

/// `count` seeded geometries plus (thorough) every (in, out) pair up to `grid`
pub fn generate(out: &mut Out, rng: &mut Rng, count: usize, grid: u32, filters: &[usize]) {
    let mut emit = |out: &mut Out, in_size: u32, in0: f64, in1: f64, out_size: u32, fi: usize, adaptive: bool| {
        let r = catch(|| coeffs_line(in_size, in0, in1, out_size, fi, adaptive));
        match r {
            Ok(line) => {
                out.count(&format!("coeffs:{}", FILTERS[fi].0));
                out.count(&format!("coeffs:ratio-{}", if in1 - in0 > out_size as f64 * 8.0 { "down>8" } else if in1 - in0 > out_size as f64 { "down" } else if (in1 - in0) * 8.0 < out_size as f64 { "up>8" } else { "up" }));
                let k = fnv(line[..line.find(" ws=").unwrap_or(60)].as_bytes());
                out.push(line, Some(k));
            }
            Err(p) => out.impl_failures.push(format!("precompute_coefficients panicked: in={} [{},{}) out={} filter={}: {}", in_size, in0, in1, out_size, FILTERS[fi].0, p)),
        }
    };
    for a in 1..=grid {
        for b in 1..=grid {
            for &fi in filters {
                emit(out, a, 0.0, a as f64, b, fi, true);
            }
        }
    }
    for _ in 0..count {
        let fi = *rng.pick(filters);
        let (in_size, out_size) = match rng.below(6) {
            0 => (rng.range(500, 8000) as u32, rng.range(1, 8) as u32),
            1 => (rng.range(1, 8) as u32, rng.range(200, 3000) as u32),
            2 => (rng.range(1, 64) as u32, rng.range(1, 64) as u32),
            _ => (rng.range(1, 800) as u32, rng.range(1, 800) as u32),
        };
        let fw = in_size as f64;
        let (in0, in1) = match rng.below(5) {
            0 | 1 => (0.0, fw),
            2 => {
                let a = rng.f64_unit() * fw * 0.8;
                (a, a + (fw - a) * (0.05 + 0.95 * rng.f64_unit()))
            }
            3 => {
                let w = 0.05 + rng.f64_unit() * (fw - 0.05).max(0.0);
                (fw - w, fw)
            }
            _ => {
                let a = rng.below(in_size as u64) as f64;
                (a, (a + 1.0 + rng.below((in_size as u64 - a as u64).max(1)) as f64).min(fw))
            }
        };
        emit(out, in_size, in0, in1, out_size, fi, rng.chance(3, 4));
    }
}
