//! C04 - geometry validation: u32 crop boxes (hook + the six real cropped containers), f64 crop
//! boxes through Resizer::resize, buffer size / alignment checks of every image constructor.

use crate::util::*;
use crate::with_pixel_type;
use fast_image_resize as fir;
use fir::images::*;
use fir::pixels::I32;
use fir::{ImageView, IntoImageView, IntoImageViewMut, PixelType, ResizeAlg, ResizeOptions, Resizer};

fn rows_of(v: &impl ImageView<Pixel = I32>) -> String {
    let rows: Vec<String> = v
        .iter_rows(0)
        .map(|r| r.iter().map(|p| p.0.to_string()).collect::<Vec<_>>().join(","))
        .collect();
    format!("{}x{}:{}", v.width(), v.height(), rows.join("/"))
}

fn err_name<T>(r: Result<T, fir::CropBoxError>) -> Result<T, String> {
    r.map_err(|e| format!("err:{:?}", e))
}

pub fn generate(out: &mut Out, seed: u64, thorough: bool) {
    let mut rng = Rng::new(seed ^ 0xC04);
    // ---- 1. check_crop_box on the boundary grid (through the hook)
    let sizes: [u32; 6] = [0, 1, 4, 7, 1 << 31, u32::MAX];
    for &iw in &sizes {
        for &ih in &[0u32, 1, 5, u32::MAX] {
            let grid = |e: u32| -> Vec<u32> {
                let mut g = vec![0, 1, e.wrapping_sub(1), e, e.wrapping_add(1), (1 << 31) - 1, 1 << 31, u32::MAX - 1, u32::MAX];
                g.sort();
                g.dedup();
                g
            };
            for &l in &grid(iw) {
                for &t in &grid(ih) {
                    for &w in &grid(iw) {
                        for &h in &grid(ih) {
                            let got = catch(|| fir::verif_hooks::check_crop_box(iw, ih, l, t, w, h));
                            let gs = match got {
                                Ok(c) => c.to_string(),
                                Err(_) => "9".to_string(),
                            };
                            out.count(&format!("ccb:{}", gs));
                            let line = format!("ccb W={} H={} l={} t={} w={} h={} got={}", iw, ih, l, t, w, h, gs);
                            let k = fnv(line.as_bytes());
                            out.push(line, Some(k));
                        }
                    }
                }
            }
        }
    }
    for _ in 0..(if thorough { 200000 } else { 20000 }) {
        let pick = |rng: &mut Rng| -> u32 {
            match rng.below(4) {
                0 => rng.below(12) as u32,
                1 => u32::MAX - rng.below(12) as u32,
                2 => (1u32 << 31).wrapping_add(rng.below(7) as u32).wrapping_sub(3),
                _ => rng.next() as u32,
            }
        };
        let (iw, ih, l, t, w, h) = (pick(&mut rng), pick(&mut rng), pick(&mut rng), pick(&mut rng), pick(&mut rng), pick(&mut rng));
        let got = catch(|| fir::verif_hooks::check_crop_box(iw, ih, l, t, w, h));
        let gs = match got {
            Ok(c) => c.to_string(),
            Err(_) => "9".to_string(),
        };
        out.count(&format!("ccb:{}", gs));
        out.push(format!("ccb W={} H={} l={} t={} w={} h={} got={}", iw, ih, l, t, w, h, gs), None);
    }
    // ---- 2. the real cropped containers over a tagged image
    for iw in 0..=4u32 {
        for ih in 0..=4u32 {
            let tags: Vec<I32> = (0..(iw * ih) as i32).map(I32::new).collect();
            let vals = |e: u32| -> Vec<u32> {
                let mut g = vec![0, 1, 2, e.wrapping_sub(1), e, e + 1, u32::MAX - 1, u32::MAX, 1 << 31];
                g.sort();
                g.dedup();
                g
            };
            for &l in &vals(iw) {
                for &t in &vals(ih) {
                    for &w in &vals(iw) {
                        for &h in &vals(ih) {
                            for kind in ["typed_ref", "typed_new", "typedmut_ref", "typedmut_new", "dyn", "dynmut"] {
                                let mut buf = tags.clone();
                                let r: Result<Result<String, String>, String> = catch(|| match kind {
                                    "typed_ref" => {
                                        let base = TypedImageRef::new(iw, ih, &buf).unwrap();
                                        err_name(TypedCroppedImage::from_ref(&base, l, t, w, h)).map(|v| rows_of(&v))
                                    }
                                    "typed_new" => {
                                        let base = TypedImageRef::new(iw, ih, &buf).unwrap();
                                        err_name(TypedCroppedImage::new(base, l, t, w, h)).map(|v| rows_of(&v))
                                    }
                                    "typedmut_ref" => {
                                        let mut base = TypedImage::from_pixels_slice(iw, ih, &mut buf).unwrap();
                                        err_name(TypedCroppedImageMut::from_ref(&mut base, l, t, w, h)).map(|v| rows_of(&v))
                                    }
                                    "typedmut_new" => {
                                        let base = TypedImage::from_pixels_slice(iw, ih, &mut buf).unwrap();
                                        err_name(TypedCroppedImageMut::new(base, l, t, w, h)).map(|v| rows_of(&v))
                                    }
                                    "dyn" => {
                                        let comps: Vec<u64> = (0..(iw * ih) as u64).collect();
                                        let img = image_from_comps(iw, ih, PixelType::I32, &comps);
                                        err_name(CroppedImage::new(&img, l, t, w, h)).map(|c| {
                                            let v = c.image_view::<I32>().unwrap();
                                            rows_of(&v)
                                        })
                                    }
                                    _ => {
                                        let comps: Vec<u64> = (0..(iw * ih) as u64).collect();
                                        let mut img = image_from_comps(iw, ih, PixelType::I32, &comps);
                                        err_name(CroppedImageMut::new(&mut img, l, t, w, h)).map(|mut c| {
                                            let v = c.image_view_mut::<I32>().unwrap();
                                            rows_of(&v)
                                        })
                                    }
                                });
                                let got = match r {
                                    Ok(Ok(s)) => format!("ok:{}", s),
                                    Ok(Err(e)) => e,
                                    Err(p) => format!("panic:{}", p.replace(' ', "_")),
                                };
                                out.count(&format!("cropctor:{}:{}", kind, &got[..got.find(':').unwrap_or(got.len())]));
                                let line = format!("cropctor kind={} W={} H={} l={} t={} w={} h={} got={}", kind, iw, ih, l, t, w, h, got);
                                let k = if got.starts_with("ok") { Some(fnv(line.as_bytes())) } else { None };
                                out.push(line, k);
                            }
                        }
                    }
                }
            }
        }
    }
    // ---- 3. f64 crop boxes through Resizer::resize
    for &(iw, ih) in &[(4u32, 3u32), (1, 1), (7, 5)] {
        let fw = iw as f64;
        let fh = ih as f64;
        let vals = |e: f64| -> Vec<f64> {
            vec![
                f64::NEG_INFINITY, -1e300, -1.0, -1e-320, -0.0, 0.0, 5e-324, 1e-320, 0.5, 1.0, e - 1.0, e - 0.5,
                f64::from_bits(e.to_bits() - 1), e, f64::from_bits(e.to_bits() + 1), e + 1.0, 1e300, f64::INFINITY, f64::NAN,
            ]
        };
        let src = image_from_comps(iw, ih, PixelType::U8, &vec![7; (iw * ih) as usize]);
        for &(dw, dh) in &[(2u32, 2u32), (0, 2)] {
            for &l in &vals(fw) {
                for &t in &vals(fh) {
                    for &w in &vals(fw) {
                        for &h in &vals(fh) {
                            if dw == 0 && rng.below(8) != 0 {
                                continue;
                            }
                            note_current(&format!("cropf64 W={} H={} dw={} dh={} l={:016x} t={:016x} w={:016x} h={:016x}", iw, ih, dw, dh, l.to_bits(), t.to_bits(), w.to_bits(), h.to_bits()));
                            let mut dst = Image::new(dw, dh, PixelType::U8);
                            let mut resizer = Resizer::new();
                            let opts = ResizeOptions::new().resize_alg(ResizeAlg::Nearest).crop(l, t, w, h);
                            let r = catch(|| resizer.resize(&src, &mut dst, &opts));
                            let got = match r {
                                Ok(Ok(())) => "ok".to_string(),
                                Ok(Err(fir::ResizeError::SrcCroppingError(e))) => format!("err:{:?}", e),
                                Ok(Err(e)) => format!("err:{:?}", e).replace(' ', ""),
                                Err(p) => format!("panic:{}", p.replace(' ', "_")),
                            };
                            out.count(&format!("cropf64:{}", got));
                            let line = format!(
                                "cropf64 W={} H={} dw={} dh={} l={:016x} t={:016x} w={:016x} h={:016x} got={}",
                                iw, ih, dw, dh, l.to_bits(), t.to_bits(), w.to_bits(), h.to_bits(), got
                            );
                            let k = fnv(line.as_bytes());
                            out.push(line, Some(k));
                        }
                    }
                }
            }
        }
    }
    // ---- 4. constructors: buffer length around the requirement, misalignment, huge sizes
    let dims: [(u32, u32); 12] = [
        (0, 0), (0, 5), (1, 1), (3, 2), (5, 7), (16, 16), (1 << 16, 1 << 16), (1 << 31, 1 << 31), (u32::MAX, u32::MAX),
        (1 << 31, 2), (u32::MAX, 1), (1 << 30, 1 << 30),
    ];
    let mut backing = vec![0u64; 4096];
    for &pt in ALL_TYPES.iter() {
        let psize = pt.size();
        let align = with_pixel_type!(pt, P => std::mem::align_of::<P>());
        for &(w, h) in &dims {
            let need = (w as u128) * (h as u128) * psize as u128;
            let mut lens: Vec<usize> = vec![0, 1, psize, 4096 * 8 - 16];
            if need < 4096 * 8 - 32 {
                let n = need as usize;
                lens.extend_from_slice(&[n.saturating_sub(1), n, n + 1, n + psize]);
            }
            lens.sort();
            lens.dedup();
            for &len in &lens {
                for mis in 0..4usize {
                    let bytes: &mut [u8] = unsafe { std::slice::from_raw_parts_mut((backing.as_mut_ptr() as *mut u8).add(mis), len) };
                    for kind in ["image_ref", "image_slice", "image_vec", "typed_from_buffer", "typed_ref_from_buffer"] {
                        if kind == "image_vec" && mis != 0 {
                            continue; // a Vec cannot be misaligned on purpose
                        }
                        let r: Result<Result<(), String>, String> = catch(|| match kind {
                            "image_ref" => ImageRef::new(w, h, bytes, pt).map(|_| ()).map_err(|e| format!("err:{:?}", e)),
                            "image_slice" => Image::from_slice_u8(w, h, bytes, pt).map(|_| ()).map_err(|e| format!("err:{:?}", e)),
                            "image_vec" => Image::from_vec_u8(w, h, bytes.to_vec(), pt).map(|_| ()).map_err(|e| format!("err:{:?}", e)),
                            "typed_from_buffer" => with_pixel_type!(pt, P => TypedImage::<P>::from_buffer(w, h, bytes).map(|_| ()).map_err(|e| format!("err:{:?}", e))),
                            _ => with_pixel_type!(pt, P => TypedImageRef::<P>::from_buffer(w, h, bytes).map(|_| ()).map_err(|e| format!("err:{:?}", e))),
                        });
                        let got = match r {
                            Ok(Ok(())) => "ok".to_string(),
                            Ok(Err(e)) => e,
                            Err(p) => format!("panic:{}", p.replace(' ', "_")),
                        };
                        // a Vec<u8> copy may land on any alignment: report the real one
                        let mis_eff = if kind == "image_vec" { 0 } else { mis };
                        if kind == "image_vec" && align > 1 {
                            continue; // alignment of a fresh Vec<u8> is the allocator's business
                        }
                        out.count(&format!("ctor:{}:{}", kind, got));
                        let line = format!("ctor kind={} pt={} psize={} W={} H={} len={} mis={} align={} got={}", kind, pt_name(pt), psize, w, h, len, mis_eff, align, got);
                        let k = fnv(line.as_bytes());
                        out.push(line, Some(k));
                    }
                }
                // pixel-slice constructors (length in pixels)
                if len % psize == 0 {
                    let npix = len / psize;
                    with_pixel_type!(pt, P => {
                        let mut px: Vec<P> = vec![P::default(); npix];
                        for kind in ["typed_ref_new", "typed_slice", "typed_vec"] {
                            let r: Result<Result<(), String>, String> = catch(|| match kind {
                                "typed_ref_new" => TypedImageRef::<P>::new(w, h, &px).map(|_| ()).map_err(|e| format!("err:{:?}", e)),
                                "typed_slice" => TypedImage::<P>::from_pixels_slice(w, h, &mut px).map(|_| ()).map_err(|e| format!("err:{:?}", e)),
                                _ => TypedImage::<P>::from_pixels(w, h, px.clone()).map(|_| ()).map_err(|e| format!("err:{:?}", e)),
                            });
                            let got = match r {
                                Ok(Ok(())) => "ok".to_string(),
                                Ok(Err(e)) => e,
                                Err(p) => format!("panic:{}", p.replace(' ', "_")),
                            };
                            out.count(&format!("ctor:{}:{}", kind, got));
                            let line = format!("ctor kind={} pt={} psize={} W={} H={} len={} mis=0 align={} got={}", kind, pt_name(pt), psize, w, h, npix, align, got);
                            let k = fnv(line.as_bytes());
                            out.push(line, Some(k));
                        }
                    });
                }
            }
        }
    }
}
