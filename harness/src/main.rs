//! fir-harness: runs the real fast_image_resize code on generated inputs and writes one request
//! line per case (input + the implementation's answer) for the Lean model driver `firmodel`.
//!
//! usage: fir-harness <property> --seed N --tier quick|thorough --out DIR

mod c01;
mod c02;
mod c03;
mod c04;
mod c06;
mod c08;
mod c14;
mod c15;
mod c16;
mod rcase;
mod rprops;
mod views;
mod c17;
mod opviews;
mod coeffs;
mod util;

use std::io::Write;
use util::*;

fn main() {
    let args: Vec<String> = std::env::args().collect();
    if args.len() < 2 {
        eprintln!("usage: fir-harness <property> --seed N --tier quick|thorough --out DIR");
        std::process::exit(2);
    }
    let cmd = args[1].clone();
    let mut seed: u64 = 1;
    let mut tier = "quick".to_string();
    let mut outdir = ".".to_string();
    let mut extra: Vec<String> = Vec::new();
    let mut i = 2;
    while i < args.len() {
        match args[i].as_str() {
            "--seed" => {
                seed = args[i + 1].parse().unwrap_or(1);
                i += 2;
            }
            "--tier" => {
                tier = args[i + 1].clone();
                i += 2;
            }
            "--out" => {
                outdir = args[i + 1].clone();
                i += 2;
            }
            other => {
                extra.push(other.to_string());
                i += 1;
            }
        }
    }
    let thorough = tier == "thorough";
    silence_panics();
    std::fs::create_dir_all(&outdir).unwrap();
    set_current_file(format!("{}/current.txt", outdir));
    let mut out = Out::new();
    match cmd.as_str() {
        "C01" => {
            c01::generate(&mut out, seed, thorough);
            let mut rng = Rng::new(seed ^ 0xC0EF);
            rprops::gen_ss_documented(&mut out, &mut rng, if thorough { 400 } else { 60 });
            coeffs::generate(&mut out, &mut rng, if thorough { 20000 } else { 2500 }, if thorough { 40 } else { 12 }, &[0, 1, 2, 3, 4, 5, 6]);
        }
        "C02" => {
            c02::generate(&mut out, seed, thorough);
            c06::generate(&mut out, seed, thorough);
        }
        "C03" => {
            std::fs::create_dir_all(&outdir).unwrap();
            c03::generate(&mut out, seed, thorough, &outdir);
            let mut rng = Rng::new(seed ^ 0xC03EF);
            coeffs::generate(&mut out, &mut rng, if thorough { 12000 } else { 1500 }, if thorough { 24 } else { 8 }, &[0, 1, 2, 3, 4, 5, 6]);
        }
        "C04" => {
            c04::generate(&mut out, seed, thorough);
            // views obtained by splitting are views too: the column / row range given to split_by_* must lie inside
            // the view it is applied to (the requests and their oracle are C14's)
            c14::generate(&mut out, seed, false);
        }
        "C05" => {
            rprops::gen_c05(&mut out, seed, thorough);
            // the other operations the property names: alpha multiply / divide, component conversion, colour mapping
            let mut rng = Rng::new(seed ^ 0xC05_0F);
            c06::generate_views(&mut out, &mut rng, thorough);
            opviews::generate(&mut out, &mut rng, thorough);
        }
        "C07" => rprops::gen_c07(&mut out, seed, thorough),
        "C09" => rprops::gen_c09(&mut out, seed, thorough),
        "C10" => {
            rprops::gen_c10(&mut out, seed, thorough);
            let mut rng = Rng::new(seed ^ 0xC10EF);
            coeffs::generate(&mut out, &mut rng, if thorough { 60000 } else { 6000 }, if thorough { 128 } else { 24 }, &[0, 1, 2, 3, 4, 5, 6]);
        }
        "C11" => rprops::gen_c11(&mut out, seed, thorough),
        "C12" => rprops::gen_c12(&mut out, seed, thorough),
        "C13" => {
            rprops::gen_c13(&mut out, seed, thorough);
            let mut rng = Rng::new(seed ^ 0xC13_0F);
            c06::generate_views(&mut out, &mut rng, false);
            opviews::generate(&mut out, &mut rng, false);
            c06::generate_entry_pairs(&mut out, &mut rng);
        }
        "C18" => {
            rprops::gen_c18(&mut out, seed, thorough);
            let mut rng = Rng::new(seed ^ 0xC18EF);
            coeffs::generate(&mut out, &mut rng, if thorough { 30000 } else { 4000 }, if thorough { 64 } else { 16 }, &[0, 1, 2, 5]);
        }
        "C06" => c06::generate(&mut out, seed, thorough),
        "C08" => c08::generate(&mut out, seed, thorough),
        "C14" => c14::generate(&mut out, seed, thorough),
        "C15" => c15::generate(&mut out, seed, thorough),
        "C16" => c16::generate(&mut out, seed, thorough),
        "dump-tables" => {
            std::fs::create_dir_all(&outdir).unwrap();
            c16::dump_tables(&format!("{}/tables.txt", outdir));
            return;
        }
        "C17" => c17::generate(&mut out, seed, thorough),
        other => {
            eprintln!("unknown property {}", other);
            std::process::exit(2);
        }
    }
    let _ = extra;
    clear_current();
    std::fs::create_dir_all(&outdir).unwrap();
    let mut f = std::io::BufWriter::new(std::fs::File::create(format!("{}/requests.txt", outdir)).unwrap());
    for l in &out.lines {
        f.write_all(l.as_bytes()).unwrap();
        f.write_all(b"\n").unwrap();
    }
    f.flush().unwrap();
    // stats as JSON
    let mut s = String::new();
    s.push_str("{\n");
    s.push_str(&format!("  \"evaluations\": {},\n", out.lines.len()));
    s.push_str(&format!("  \"distinct_nontrivial\": {},\n", out.nontrivial.len()));
    s.push_str("  \"distribution\": {");
    let mut first = true;
    for (k, v) in &out.dist {
        if !first {
            s.push_str(", ");
        }
        first = false;
        s.push_str(&format!("\"{}\": {}", json_escape(k), v));
    }
    s.push_str("},\n  \"samples\": [");
    s.push_str(&out.samples.iter().map(|x| format!("\"{}\"", json_escape(x))).collect::<Vec<_>>().join(", "));
    s.push_str("],\n  \"impl_failures\": [");
    s.push_str(&out.impl_failures.iter().map(|x| format!("\"{}\"", json_escape(x))).collect::<Vec<_>>().join(", "));
    s.push_str("],\n  \"notes\": [");
    s.push_str(&out.notes.iter().map(|x| format!("\"{}\"", json_escape(x))).collect::<Vec<_>>().join(", "));
    s.push_str("]\n}\n");
    std::fs::write(format!("{}/stats.json", outdir), s).unwrap();
}
