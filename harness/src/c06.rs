//! C06 - alpha multiply / divide: whole images through the real kernels, every lane position.

use crate::util::*;
use crate::with_pixel_type;
use fast_image_resize as fir;
use fir::images::Image;
use fir::{MulDiv, PixelType};

/// run one alpha operation through the public API
/// entry: "dyn" = MulDiv::multiply_alpha(&Image..), "typed" = multiply_alpha_typed(TypedImageRef, TypedImage)
pub fn run_alpha(
    pt: PixelType,
    is_mul: bool,
    ext: fir::CpuExtensions,
    inplace: bool,
    typed: bool,
    w: u32,
    h: u32,
    src_comps: &[u64],
) -> Result<Result<Vec<u64>, String>, String> {
    let src = image_from_comps(w, h, pt, src_comps);
    let mut md = MulDiv::new();
    unsafe { md.set_cpu_extensions(ext) };
    catch(move || {
        if inplace {
            let mut img = src;
            let r: Result<(), String> = if typed {
                with_pixel_type!(pt, P => {
                    let mut v = img.typed_image_mut::<P>().unwrap();
                    if is_mul { md.multiply_alpha_inplace_typed(&mut v) } else { md.divide_alpha_inplace_typed(&mut v) }
                        .map_err(|e| format!("{:?}", e))
                })
            } else if is_mul {
                md.multiply_alpha_inplace(&mut img).map_err(|e| format!("{:?}", e))
            } else {
                md.divide_alpha_inplace(&mut img).map_err(|e| format!("{:?}", e))
            };
            r.map(|_| image_comps(&img))
        } else {
            // destination pre-filled with a sentinel so that unwritten pixels are visible
            let mut dst = Image::new(w, h, pt);
            dst.buffer_mut().iter_mut().for_each(|b| *b = 0xA5);
            let r: Result<(), String> = if typed {
                with_pixel_type!(pt, P => {
                    let s = src.typed_image::<P>().unwrap();
                    let mut d = dst.typed_image_mut::<P>().unwrap();
                    if is_mul { md.multiply_alpha_typed(&s, &mut d) } else { md.divide_alpha_typed(&s, &mut d) }
                        .map_err(|e| format!("{:?}", e))
                })
            } else if is_mul {
                md.multiply_alpha(&src, &mut dst).map_err(|e| format!("{:?}", e))
            } else {
                md.divide_alpha(&src, &mut dst).map_err(|e| format!("{:?}", e))
            };
            r.map(|_| image_comps(&dst))
        }
    })
}

fn gen_pairs16(rng: &mut Rng, n: usize) -> Vec<(u64, u64)> {
    let edge: [u64; 16] = [0, 1, 2, 3, 127, 128, 255, 256, 257, 32767, 32768, 32769, 65279, 65280, 65534, 65535];
    let mut v = Vec::with_capacity(n);
    for &c in &edge {
        for &a in &edge {
            v.push((c, a));
        }
    }
    while v.len() < n {
        let mode = rng.below(6);
        let (c, a) = match mode {
            0 => (rng.below(65536), rng.below(65536)),
            1 => {
                let a = rng.below(65536);
                (rng.below(a + 1), a)
            }
            2 => (rng.below(65536), rng.below(8)),
            3 => (32760 + rng.below(20), 1 + rng.below(3)),
            4 => {
                let a = 1 + rng.below(65535);
                let q = rng.below(65536);
                // colour close to a multiple boundary of alpha
                ((q * a / 65535 + rng.below(3)).min(65535), a)
            }
            _ => (65535 - rng.below(300), rng.below(65536)),
        };
        v.push((c, a));
    }
    v
}

fn f32_pool(rng: &mut Rng) -> u64 {
    let specials: [f32; 12] = [0.0, -0.0, 1.0, 0.5, 0.25, 2.0, 1e-20, 255.0, -1.0, 0.1, 0.999_999_94, 3.4e38];
    if rng.chance(1, 4) {
        rng.pick(&specials).to_bits() as u64
    } else if rng.chance(1, 40) {
        if rng.chance(1, 2) { f32::INFINITY.to_bits() as u64 } else { f32::NAN.to_bits() as u64 }
    } else {
        (rng.f64_unit() as f32).to_bits() as u64
    }
}

pub fn generate(out: &mut Out, seed: u64, thorough: bool) {
    let mut rng = Rng::new(seed ^ 0xC06);
    let widths: [u32; 14] = [1, 2, 3, 4, 5, 7, 8, 9, 15, 16, 17, 31, 33, 40];
    for &pt in ALPHA_TYPES.iter() {
        let kind = pt_kind(pt);
        let n = pt_comps(pt);
        for is_mul in [true, false] {
            for (ext_name, ext) in exts() {
                for inplace in [false, true] {
                    for typed in [false, true] {
                        // pixel stream
                        let pixels: Vec<Vec<u64>> = match kind {
                            Kind::U8 => {
                                // all 65,536 (colour, alpha) pairs, rotated so that lane positions vary
                                let k = rng.below(65536);
                                (0..65536u64)
                                    .map(|i| {
                                        let j = (i + k) % 65536;
                                        let (c, a) = (j % 256, j / 256);
                                        let mut p = vec![c; n - 1];
                                        if n == 4 {
                                            p[1] = (c * 7 + 3) % 256;
                                            p[2] = 255 - c;
                                        }
                                        p.push(a);
                                        p
                                    })
                                    .collect()
                            }
                            Kind::U16 => {
                                let cnt = if thorough { 1 << 18 } else { 1 << 15 };
                                gen_pairs16(&mut rng, cnt)
                                    .into_iter()
                                    .map(|(c, a)| {
                                        let mut p = vec![c; n - 1];
                                        if n == 4 {
                                            p[1] = (c * 31 + 7) % 65536;
                                            p[2] = 65535 - c;
                                        }
                                        p.push(a);
                                        p
                                    })
                                    .collect()
                            }
                            _ => (0..4096)
                                .map(|_| (0..n).map(|_| f32_pool(&mut rng)).collect())
                                .collect(),
                        };
                        // cut the stream into images of different widths
                        let w = *rng.pick(&widths);
                        let total = pixels.len() as u32;
                        let h = total / w;
                        let used = (w * h) as usize;
                        let comps: Vec<u64> = pixels[..used].iter().flatten().copied().collect();
                        emit(out, pt, is_mul, ext_name, ext, inplace, typed, w, h, &comps);
                        // plus a handful of short rows (every remainder / tail position)
                        for &w2 in widths.iter() {
                            let start = rng.below((pixels.len() - 3 * w2 as usize) as u64) as usize;
                            let comps: Vec<u64> =
                                pixels[start..start + 3 * w2 as usize].iter().flatten().copied().collect();
                            emit(out, pt, is_mul, ext_name, ext, inplace, typed, w2, 3, &comps);
                        }
                    }
                }
            }
        }
    }
    // pixel types without alpha are rejected; size mismatches are rejected
    for &pt in ALL_TYPES.iter() {
        let md = MulDiv::new();
        let src = Image::new(3, 2, pt);
        let mut dst = Image::new(3, 2, pt);
        let mut img = Image::new(3, 2, pt);
        let rs = [
            ("mul-two", md.multiply_alpha(&src, &mut dst).map_err(|e| format!("{:?}", e))),
            ("div-two", md.divide_alpha(&src, &mut dst).map_err(|e| format!("{:?}", e))),
            ("mul-inplace", md.multiply_alpha_inplace(&mut img).map_err(|e| format!("{:?}", e))),
            ("div-inplace", md.divide_alpha_inplace(&mut img).map_err(|e| format!("{:?}", e))),
        ];
        for (name, r) in rs {
            let got = match r {
                Ok(()) => "ok".to_string(),
                Err(e) => e.replace(' ', ""),
            };
            out.count(&format!("reject:{}", got));
            out.push(format!("alpha-reject pt={} op={} got={}", pt_name(pt), name, got), Some(fnv(format!("{}{}", pt_name(pt), name).as_bytes())));
        }
        let mut dst2 = Image::new(2, 3, pt);
        let got = match md.multiply_alpha(&src, &mut dst2) {
            Ok(()) => "ok".to_string(),
            Err(e) => format!("{:?}", e).replace(' ', ""),
        };
        out.push(format!("alpha-reject pt={} op=mul-two-size got={}", pt_name(pt), got), None);
    }
}

#[allow(clippy::too_many_arguments)]
fn emit(
    out: &mut Out,
    pt: PixelType,
    is_mul: bool,
    ext_name: &str,
    ext: fir::CpuExtensions,
    inplace: bool,
    typed: bool,
    w: u32,
    h: u32,
    comps: &[u64],
) {
    let kind = pt_kind(pt);
    let r = run_alpha(pt, is_mul, ext, inplace, typed, w, h, comps);
    let key = format!(
        "{}:{}:{}:{}:{}",
        pt_name(pt),
        if is_mul { "mul" } else { "div" },
        ext_name,
        if inplace { "inplace" } else { "two" },
        if typed { "typed" } else { "dyn" }
    );
    out.count(&format!("cfg:{}", key));
    out.count(&format!("width_mod8:{}", w % 8));
    out.count_n("pixels", (w * h) as u64);
    let got = match r {
        Ok(Ok(c)) => comps_hex(kind, &c),
        Ok(Err(e)) => format!("err:{}", e.replace(' ', "")),
        Err(p) => format!("panic:{}", p.replace(' ', "_")),
    };
    let line = format!(
        "alpha pt={} op={} ext={} variant={} entry={} w={} h={} src={} got={}",
        pt_name(pt),
        if is_mul { "mul" } else { "div" },
        ext_name,
        if inplace { "inplace" } else { "two" },
        if typed { "typed" } else { "dyn" },
        w,
        h,
        comps_hex(kind, comps),
        got
    );
    let k = fnv(line.as_bytes());
    out.push(line, Some(k));
}
