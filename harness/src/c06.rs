//! C06 - alpha multiply / divide: whole images through the real kernels, every lane position.

use crate::util::*;
use crate::views::{placements, Shape, PLACEMENTS};
use crate::{with_pixel_type, with_view, with_view_mut};
use fir::pixels::InnerPixel;
use fast_image_resize as fir;
use fir::images::Image;
use fir::{MulDiv, PixelType};

/// run one alpha operation through the public API
/// entry: "dyn" = MulDiv::multiply_alpha(&Image..), "typed" = multiply_alpha_typed(TypedImageRef, TypedImage)
pub fn run_alpha(
    pt: PixelType,
    is_mul: bool,
    ext: fir::CpuExtensions,
    inplace: bool,
    typed: bool,
    w: u32,
    h: u32,
    src_comps: &[u64],
) -> Result<Result<Vec<u64>, String>, String> {
    let src = image_from_comps(w, h, pt, src_comps);
    let mut md = MulDiv::new();
    unsafe { md.set_cpu_extensions(ext) };
    catch(move || {
        if inplace {
            let mut img = src;
            let r: Result<(), String> = if typed {
                with_pixel_type!(pt, P => {
                    let mut v = img.typed_image_mut::<P>().unwrap();
                    if is_mul { md.multiply_alpha_inplace_typed(&mut v) } else { md.divide_alpha_inplace_typed(&mut v) }
                        .map_err(|e| format!("{:?}", e))
                })
            } else if is_mul {
                md.multiply_alpha_inplace(&mut img).map_err(|e| format!("{:?}", e))
            } else {
                md.divide_alpha_inplace(&mut img).map_err(|e| format!("{:?}", e))
            };
            r.map(|_| image_comps(&img))
        } else {
            // destination pre-filled with a sentinel so that unwritten pixels are visible
            let mut dst = Image::new(w, h, pt);
            dst.buffer_mut().iter_mut().for_each(|b| *b = 0xA5);
            let r: Result<(), String> = if typed {
                with_pixel_type!(pt, P => {
                    let s = src.typed_image::<P>().unwrap();
                    let mut d = dst.typed_image_mut::<P>().unwrap();
                    if is_mul { md.multiply_alpha_typed(&s, &mut d) } else { md.divide_alpha_typed(&s, &mut d) }
                        .map_err(|e| format!("{:?}", e))
                })
            } else if is_mul {
                md.multiply_alpha(&src, &mut dst).map_err(|e| format!("{:?}", e))
            } else {
                md.divide_alpha(&src, &mut dst).map_err(|e| format!("{:?}", e))
            };
            r.map(|_| image_comps(&dst))
        }
    })
}

fn gen_pairs16(rng: &mut Rng, n: usize) -> Vec<(u64, u64)> {
    let edge: [u64; 16] = [0, 1, 2, 3, 127, 128, 255, 256, 257, 32767, 32768, 32769, 65279, 65280, 65534, 65535];
    let mut v = Vec::with_capacity(n);
    for &c in &edge {
        for &a in &edge {
            v.push((c, a));
        }
    }
    while v.len() < n {
        let mode = rng.below(6);
        let (c, a) = match mode {
            0 => (rng.below(65536), rng.below(65536)),
            1 => {
                let a = rng.below(65536);
                (rng.below(a + 1), a)
            }
            2 => (rng.below(65536), rng.below(8)),
            3 => (32760 + rng.below(20), 1 + rng.below(3)),
            4 => {
                let a = 1 + rng.below(65535);
                let q = rng.below(65536);
                // colour close to a multiple boundary of alpha
                ((q * a / 65535 + rng.below(3)).min(65535), a)
            }
            _ => (65535 - rng.below(300), rng.below(65536)),
        };
        v.push((c, a));
    }
    v
}

fn f32_pool(rng: &mut Rng) -> u64 {
    let specials: [f32; 12] = [0.0, -0.0, 1.0, 0.5, 0.25, 2.0, 1e-20, 255.0, -1.0, 0.1, 0.999_999_94, 3.4e38];
    if rng.chance(1, 4) {
        rng.pick(&specials).to_bits() as u64
    } else if rng.chance(1, 40) {
        if rng.chance(1, 2) { f32::INFINITY.to_bits() as u64 } else { f32::NAN.to_bits() as u64 }
    } else {
        (rng.f64_unit() as f32).to_bits() as u64
    }
}

pub fn generate(out: &mut Out, seed: u64, thorough: bool) {
    let mut rng = Rng::new(seed ^ 0xC06);
    let widths: [u32; 14] = [1, 2, 3, 4, 5, 7, 8, 9, 15, 16, 17, 31, 33, 40];
    for &pt in ALPHA_TYPES.iter() {
        let kind = pt_kind(pt);
        let n = pt_comps(pt);
        for is_mul in [true, false] {
            for (ext_name, ext) in exts() {
                for inplace in [false, true] {
                    for typed in [false, true] {
                        // pixel stream
                        let pixels: Vec<Vec<u64>> = match kind {
                            Kind::U8 => {
                                // all 65,536 (colour, alpha) pairs, rotated so that lane positions vary
                                let k = rng.below(65536);
                                (0..65536u64)
                                    .map(|i| {
                                        let j = (i + k) % 65536;
                                        let (c, a) = (j % 256, j / 256);
                                        let mut p = vec![c; n - 1];
                                        if n == 4 {
                                            p[1] = (c * 7 + 3) % 256;
                                            p[2] = 255 - c;
                                        }
                                        p.push(a);
                                        p
                                    })
                                    .collect()
                            }
                            Kind::U16 => {
                                let cnt = if thorough { 1 << 18 } else { 1 << 15 };
                                gen_pairs16(&mut rng, cnt)
                                    .into_iter()
                                    .map(|(c, a)| {
                                        let mut p = vec![c; n - 1];
                                        if n == 4 {
                                            p[1] = (c * 31 + 7) % 65536;
                                            p[2] = 65535 - c;
                                        }
                                        p.push(a);
                                        p
                                    })
                                    .collect()
                            }
                            _ => (0..4096)
                                .map(|_| (0..n).map(|_| f32_pool(&mut rng)).collect())
                                .collect(),
                        };
                        // cut the stream into images of different widths
                        let w = *rng.pick(&widths);
                        let total = pixels.len() as u32;
                        let h = total / w;
                        let used = (w * h) as usize;
                        let comps: Vec<u64> = pixels[..used].iter().flatten().copied().collect();
                        emit(out, pt, is_mul, ext_name, ext, inplace, typed, w, h, &comps);
                        // plus a handful of short rows (every remainder / tail position)
                        for &w2 in widths.iter() {
                            let start = rng.below((pixels.len() - 3 * w2 as usize) as u64) as usize;
                            let comps: Vec<u64> =
                                pixels[start..start + 3 * w2 as usize].iter().flatten().copied().collect();
                            emit(out, pt, is_mul, ext_name, ext, inplace, typed, w2, 3, &comps);
                        }
                        // blocky alpha: every pattern of opaque / translucent / transparent blocks of 2, 4, 8 and 16
                        // pixels inside the vectors (a kernel that treats a whole vector by looking at part of it shows)
                        {
                            let bw = 64u32;
                            let mut comps: Vec<u64> = Vec::new();
                            let mut rows = 0u32;
                            for &b in &[2u32, 4, 8, 16] {
                                for mask in 0..16u32 {
                                    for other in 0..2u32 {
                                        for x in 0..bw {
                                            let opaque = (mask >> ((x / b) % 4)) & 1 == 1;
                                            let a = match kind {
                                                Kind::F32 => {
                                                    if opaque { 1.0f32.to_bits() as u64 } else if other == 0 { 0 } else { f32_pool(&mut rng) }
                                                }
                                                _ => {
                                                    let m = kind.max();
                                                    if opaque { m } else if other == 0 { 0 } else { 1 + rng.below(m - 1) }
                                                }
                                            };
                                            for _ in 0..n - 1 {
                                                comps.push(match kind {
                                                    Kind::F32 => f32_pool(&mut rng),
                                                    _ => 1 + rng.below(kind.max()),
                                                });
                                            }
                                            comps.push(a);
                                        }
                                        rows += 1;
                                    }
                                }
                            }
                            emit(out, pt, is_mul, ext_name, ext, inplace, typed, bw, rows, &comps);
                        }
                    }
                }
            }
        }
    }
    tables(out);
    generate_views(out, &mut rng, thorough);
    if thorough && seed % 4 == 1 {
        sweep16(out);
    }
    // pixel types without alpha are rejected; size mismatches are rejected
    for &pt in ALL_TYPES.iter() {
        let md = MulDiv::new();
        let src = Image::new(3, 2, pt);
        let mut dst = Image::new(3, 2, pt);
        let mut img = Image::new(3, 2, pt);
        let rs = [
            ("mul-two", md.multiply_alpha(&src, &mut dst).map_err(|e| format!("{:?}", e))),
            ("div-two", md.divide_alpha(&src, &mut dst).map_err(|e| format!("{:?}", e))),
            ("mul-inplace", md.multiply_alpha_inplace(&mut img).map_err(|e| format!("{:?}", e))),
            ("div-inplace", md.divide_alpha_inplace(&mut img).map_err(|e| format!("{:?}", e))),
        ];
        for (name, r) in rs {
            let got = match r {
                Ok(()) => "ok".to_string(),
                Err(e) => e.replace(' ', ""),
            };
            out.count(&format!("reject:{}", got));
            out.push(format!("alpha-reject pt={} op={} got={}", pt_name(pt), name, got), Some(fnv(format!("{}{}", pt_name(pt), name).as_bytes())));
        }
        let mut dst2 = Image::new(2, 3, pt);
        let got = match md.multiply_alpha(&src, &mut dst2) {
            Ok(()) => "ok".to_string(),
            Err(e) => format!("{:?}", e).replace(' ', ""),
        };
        out.push(format!("alpha-reject pt={} op=mul-two-size got={}", pt_name(pt), got), None);
    }
}

#[allow(clippy::too_many_arguments)]
fn emit(
    out: &mut Out,
    pt: PixelType,
    is_mul: bool,
    ext_name: &str,
    ext: fir::CpuExtensions,
    inplace: bool,
    typed: bool,
    w: u32,
    h: u32,
    comps: &[u64],
) {
    let kind = pt_kind(pt);
    let r = run_alpha(pt, is_mul, ext, inplace, typed, w, h, comps);
    let key = format!(
        "{}:{}:{}:{}:{}",
        pt_name(pt),
        if is_mul { "mul" } else { "div" },
        ext_name,
        if inplace { "inplace" } else { "two" },
        if typed { "typed" } else { "dyn" }
    );
    out.count(&format!("cfg:{}", key));
    out.count(&format!("width_mod8:{}", w % 8));
    out.count_n("pixels", (w * h) as u64);
    let got = match r {
        Ok(Ok(c)) => comps_hex(kind, &c),
        Ok(Err(e)) => format!("err:{}", e.replace(' ', "")),
        Err(p) => format!("panic:{}", p.replace(' ', "_")),
    };
    let line = format!(
        "alpha pt={} op={} ext={} variant={} entry={} w={} h={} src={} got={}",
        pt_name(pt),
        if is_mul { "mul" } else { "div" },
        ext_name,
        if inplace { "inplace" } else { "two" },
        if typed { "typed" } else { "dyn" },
        w,
        h,
        comps_hex(kind, comps),
        got
    );
    let k = fnv(line.as_bytes());
    out.push(line, Some(k));
}

/// typed versus dynamic entry point (C13): every alpha operation on every alpha pixel type through both entry
/// points on the same small images with fractional alpha - each line is judged against the specification
pub fn generate_entry_pairs(out: &mut Out, rng: &mut Rng) {
    for &pt in ALPHA_TYPES.iter() {
        let kind = pt_kind(pt);
        let n = pt_comps(pt);
        for is_mul in [true, false] {
            for (ext_name, ext) in exts() {
                for inplace in [false, true] {
                    let (w, h) = (9u32, 3u32);
                    let comps = rand_alpha_comps(rng, kind, n, (w * h) as usize);
                    for typed in [false, true] {
                        emit(out, pt, is_mul, ext_name, ext, inplace, typed, w, h, &comps);
                    }
                }
            }
        }
    }
}

/// the constant tables the implementation built (through the hooks), to be compared with the translated generators
pub fn tables(out: &mut Out) {
    use fir::verif_hooks as vh;
    let clip = vh::clip8_table();
    let hex: String = clip.iter().map(|&v| format!("{:016x}", v)).collect();
    out.push(format!("table name=clip8 off=0 size={} vals={}", clip.len(), hex), Some(fnv(b"clip8")));
    let hex: String = (0..256u32).map(|a| format!("{:016x}", vh::recip_alpha(a as u8))).collect();
    out.push(format!("table name=recip8 off=0 size=256 vals={}", hex), Some(fnv(b"recip8")));
    for chunk in 0..16u32 {
        let hex: String = (0..4096u32).map(|i| format!("{:016x}", vh::recip_alpha16((chunk * 4096 + i) as u16))).collect();
        out.push(format!("table name=recip16 off={} size=65536 vals={}", chunk * 4096, hex), Some(fnv(format!("recip16-{}", chunk).as_bytes())));
    }
    out.count_n("table-entries", clip.len() as u64 + 256 + 65536);
}

fn px_from_comps<P: InnerPixel>(kind: Kind, comps: &[u64]) -> Vec<P> {
    let bytes = comps_to_bytes(kind, comps);
    let n = bytes.len() / P::size();
    let mut v = vec![P::default(); n];
    unsafe { std::ptr::copy_nonoverlapping(bytes.as_ptr(), v.as_mut_ptr() as *mut u8, n * P::size()) };
    v
}

fn comps_from_px<P: InnerPixel>(kind: Kind, px: &[P]) -> Vec<u64> {
    let mut b = vec![0u8; px.len() * P::size()];
    unsafe { std::ptr::copy_nonoverlapping(px.as_ptr() as *const u8, b.as_mut_ptr(), b.len()) };
    bytes_to_comps(kind, &b)
}

fn rand_alpha_comps(rng: &mut Rng, kind: Kind, n: usize, pixels: usize) -> Vec<u64> {
    // alpha comes in runs (1..12 pixels of the same alpha: fully opaque / transparent groups fill whole SIMD lanes)
    let mut v = Vec::with_capacity(pixels * n);
    let mut run_left = 0u64;
    let mut run_alpha = 0u64;
    for _ in 0..pixels {
        if run_left == 0 {
            run_left = if rng.chance(1, 2) { 1 } else { rng.range(2, 12) };
            run_alpha = match kind {
                Kind::F32 => match rng.below(4) {
                    0 => 1.0f32.to_bits() as u64,
                    1 => 0,
                    _ => f32_pool(rng),
                },
                _ => {
                    let m = kind.max();
                    match rng.below(6) {
                        0 => 0,
                        1 | 2 => m,
                        3 => *rng.pick(&[1, m - 1]),
                        _ => rng.below(m + 1),
                    }
                }
            };
        }
        run_left -= 1;
        for c in 0..n {
            let x = if c == n - 1 {
                run_alpha
            } else {
                match kind {
                    Kind::F32 => f32_pool(rng),
                    _ => {
                        let m = kind.max();
                        if rng.chance(1, 6) {
                            m
                        } else {
                            rng.below(m + 1)
                        }
                    }
                }
            };
            v.push(x);
        }
    }
    v
}

/// alpha operations through cropped / nested / offset views: only the destination view may change
pub fn generate_views(out: &mut Out, rng: &mut Rng, thorough: bool) {
    let widths: [u32; 12] = [1, 2, 3, 4, 5, 7, 8, 9, 15, 16, 17, 33];
    let rounds = if thorough { 12 } else { 3 };
    for &pt in ALPHA_TYPES.iter() {
        let kind = pt_kind(pt);
        let n = pt_comps(pt);
        for is_mul in [true, false] {
            for (ext_name, ext) in exts() {
                for inplace in [false, true] {
                    for _ in 0..rounds {
                        for sp in 0..PLACEMENTS {
                            let w = *rng.pick(&widths);
                            let h = rng.range(1, 4) as u32;
                            let dp = rng.below(PLACEMENTS as u64) as usize;
                            // one case in 12: destination view of another size (must be rejected)
                            let mismatch = !inplace && rng.chance(1, 12);
                            let sshape = placements(w, h, sp);
                            let dshape = if inplace {
                                sshape.clone()
                            } else if mismatch {
                                placements(w + 1, h, dp)
                            } else {
                                placements(w, h, dp)
                            };
                            let sbuf = rand_alpha_comps(rng, kind, n, sshape.buf_len());
                            let dbuf = if inplace { sbuf.clone() } else { rand_alpha_comps(rng, kind, n, dshape.buf_len()) };
                            let mut md = MulDiv::new();
                            unsafe { md.set_cpu_extensions(ext) };
                            let r: Result<Result<Vec<u64>, String>, String> = with_pixel_type!(pt, P => {
                                view_case::<P>(&md, kind, is_mul, inplace, &sshape, &dshape, &sbuf, &dbuf)
                            });
                            let got = match r {
                                Ok(Ok(c)) => format!("ok:{}", comps_hex(kind, &c)),
                                Ok(Err(e)) => format!("err:{}", e.replace(' ', "")),
                                Err(p) => format!("panic:{}", p.replace(' ', "_")),
                            };
                            out.count(&format!("view:{}:{}:{}:{}", pt_name(pt), if is_mul { "mul" } else { "div" }, ext_name, if inplace { "inplace" } else { "two" }));
                            out.count(&format!("view-placement:src{}:dst{}", sp, if inplace { sp } else { dp }));
                            if mismatch {
                                out.count("view:size-mismatch");
                            }
                            let line = format!(
                                "alphaview pt={} op={} ext={} variant={} sview={} dview={} sbuf={} dbuf={} got={}",
                                pt_name(pt),
                                if is_mul { "mul" } else { "div" },
                                ext_name,
                                if inplace { "inplace" } else { "two" },
                                sshape.desc(),
                                dshape.desc(),
                                comps_hex(kind, &sbuf),
                                comps_hex(kind, &dbuf),
                                got
                            );
                            let k = fnv(line.as_bytes());
                            out.push(line, Some(k));
                        }
                    }
                }
            }
        }
    }
}

#[allow(clippy::too_many_arguments)]
fn view_case<P: fir::PixelTrait>(
    md: &MulDiv,
    kind: Kind,
    is_mul: bool,
    inplace: bool,
    sshape: &Shape,
    dshape: &Shape,
    sbuf: &[u64],
    dbuf: &[u64],
) -> Result<Result<Vec<u64>, String>, String> {
    let spx: Vec<P> = px_from_comps(kind, sbuf);
    let mut dpx: Vec<P> = px_from_comps(kind, dbuf);
    crate::util::note_current(&format!("alphaview pt={:?} op={} variant={} sview={} dview={}", P::pixel_type(), if is_mul { "mul" } else { "div" }, if inplace { "inplace" } else { "two" }, sshape.desc(), dshape.desc()));
    let r = catch(|| {
        if inplace {
            with_view_mut!(dshape, dpx, P, d => {
                if is_mul { md.multiply_alpha_inplace_typed(d) } else { md.divide_alpha_inplace_typed(d) }.map_err(|e| format!("{:?}", e))
            })
        } else {
            with_view!(sshape, spx, P, s => {
                with_view_mut!(dshape, dpx, P, d => {
                    if is_mul { md.multiply_alpha_typed(s, d) } else { md.divide_alpha_typed(s, d) }.map_err(|e| format!("{:?}", e))
                })
            })
        }
    });
    r.map(|x| x.map(|_| comps_from_px(kind, &dpx)))
}

/// thorough tier: ALL 2^32 (colour, alpha) pairs of the 16-bit formats through every back-end, multiply and divide,
/// judged in Rust by the same formulas as Fir.Spec.Alpha (mulExact / divFaithful); only failures are reported.
pub fn sweep16(out: &mut Out) {
    use std::sync::Mutex;
    let failures: Mutex<Vec<String>> = Mutex::new(Vec::new());
    let threads = std::thread::available_parallelism().map(|n| n.get()).unwrap_or(4).min(16) as u32;
    for &pt in [PixelType::U16x2, PixelType::U16x4].iter() {
        let n = pt_comps(pt);
        for is_mul in [true, false] {
            for (ext_name, ext) in exts() {
                std::thread::scope(|sc| {
                    for t in 0..threads {
                        let failures = &failures;
                        sc.spawn(move || {
                            let mut md = MulDiv::new();
                            unsafe { md.set_cpu_extensions(ext) };
                            let mut img = Image::new(65536, 1, pt);
                            let mut a = t;
                            while a < 65536 {
                                {
                                    let buf = img.buffer_mut();
                                    for c in 0..65536usize {
                                        let px = &mut buf[c * n * 2..(c + 1) * n * 2];
                                        px[0..2].copy_from_slice(&(c as u16).to_le_bytes());
                                        if n == 4 {
                                            px[2..4].copy_from_slice(&(((c * 31 + 7) % 65536) as u16).to_le_bytes());
                                            px[4..6].copy_from_slice(&((65535 - c) as u16).to_le_bytes());
                                        }
                                        px[(n - 1) * 2..n * 2].copy_from_slice(&(a as u16).to_le_bytes());
                                    }
                                }
                                let r = if is_mul { md.multiply_alpha_inplace(&mut img) } else { md.divide_alpha_inplace(&mut img) };
                                let mut bad: Option<String> = None;
                                if r.is_err() {
                                    bad = Some(format!("error {:?}", r));
                                } else {
                                    let buf = img.buffer();
                                    let m = 65535u64;
                                    let al = a as u64;
                                    'px: for c in 0..65536usize {
                                        let get = |j: usize| u16::from_le_bytes([buf[(c * n + j) * 2], buf[(c * n + j) * 2 + 1]]) as u64;
                                        if get(n - 1) != al {
                                            bad = Some(format!("alpha changed: c={} a={} got={}", c, a, get(n - 1)));
                                            break 'px;
                                        }
                                        for j in 0..n - 1 {
                                            let cv = match (n, j) {
                                                (4, 1) => ((c * 31 + 7) % 65536) as u64,
                                                (4, 2) => (65535 - c) as u64,
                                                _ => c as u64,
                                            };
                                            let g = get(j);
                                            let ok = if is_mul {
                                                g == (2 * cv * al + m) / (2 * m)
                                            } else if al == 0 {
                                                g == 0
                                            } else {
                                                g == (cv * m / al).min(m) || g == ((cv * m + al - 1) / al).min(m)
                                            };
                                            if !ok {
                                                bad = Some(format!("c={} a={} got={}", cv, a, g));
                                                break 'px;
                                            }
                                        }
                                    }
                                }
                                if let Some(b) = bad {
                                    let mut f = failures.lock().unwrap();
                                    if f.len() < 8 {
                                        f.push(format!("16-bit sweep {} {} ext={}: {}", pt_name(pt), if is_mul { "multiply_alpha_inplace" } else { "divide_alpha_inplace" }, ext_name, b));
                                    }
                                }
                                a += threads;
                            }
                        });
                    }
                });
                out.count_n(&format!("sweep16:{}:{}:{}:pairs", pt_name(pt), if is_mul { "mul" } else { "div" }, ext_name), 1u64 << 32);
            }
        }
    }
    out.notes.push("thorough: all 2^32 (colour, alpha) pairs of U16x2 / U16x4 through multiply_alpha_inplace and divide_alpha_inplace on every back-end, judged by mulExact / divFaithful evaluated in Rust".to_string());
    out.impl_failures.extend(failures.into_inner().unwrap());
}
