//! C02 - SIMD back-ends vs the portable back-end: single passes through the hook with synthetic
//! coefficient sets hitting every remainder branch, whole resizes, alpha operations.

use crate::c01::{random_crop, random_size};
use crate::rcase::*;
use crate::util::*;
use crate::with_pixel_type;
use fast_image_resize as fir;
use fir::images::{TypedImage, TypedImageRef};
use fir::pixels::InnerPixel;
use fir::verif_hooks::VCoeffs;
use fir::{CpuExtensions, PixelTrait, PixelType};

fn pixels_from_comps<P: InnerPixel>(kind: Kind, comps: &[u64]) -> Vec<P> {
    let bytes = comps_to_bytes(kind, comps);
    let n = bytes.len() / P::size();
    let mut v = vec![P::default(); n];
    unsafe { std::ptr::copy_nonoverlapping(bytes.as_ptr(), v.as_mut_ptr() as *mut u8, n * P::size()) };
    v
}

fn comps_of_pixels<P: InnerPixel>(kind: Kind, px: &[P]) -> Vec<u64> {
    let mut b = vec![0u8; px.len() * P::size()];
    unsafe { std::ptr::copy_nonoverlapping(px.as_ptr() as *const u8, b.as_mut_ptr(), b.len()) };
    bytes_to_comps(kind, &b)
}

#[allow(clippy::too_many_arguments)]
fn run_pass<P: PixelTrait>(kind: Kind, horiz: bool, sw: u32, sh: u32, dw: u32, dh: u32, offset: u32, c: &VCoeffs, src: &[u64], ext: CpuExtensions) -> Vec<u64> {
    let spx: Vec<P> = pixels_from_comps(kind, src);
    let mut dpx: Vec<P> = vec![P::default(); (dw * dh) as usize];
    {
        let s = TypedImageRef::<P>::new(sw, sh, &spx).unwrap();
        let mut d = TypedImage::<P>::from_pixels_slice(dw, dh, &mut dpx).unwrap();
        if horiz {
            fir::verif_hooks::horiz_convolution(&s, &mut d, offset, c, ext);
        } else {
            fir::verif_hooks::vert_convolution(&s, &mut d, offset, c, ext);
        }
    }
    comps_of_pixels(kind, &dpx)
}

/// synthetic coefficient set: `n_out` windows of `taps` coefficients inside `extent` source samples
fn synth_coeffs(rng: &mut Rng, n_out: u32, extent: u32, taps: u32, style: u64) -> VCoeffs {
    let window = (taps + rng.below(3) as u32) as usize;
    let mut values = Vec::with_capacity(window * n_out as usize);
    let mut bounds = Vec::with_capacity(n_out as usize);
    for _ in 0..n_out {
        let size = if rng.chance(1, 5) { rng.range(1, taps as u64) as u32 } else { taps }.min(extent);
        let start = rng.below((extent - size + 1) as u64) as u32;
        let mut w: Vec<f64> = (0..size)
            .map(|i| match style {
                0 => rng.f64_unit(),                                  // non-negative
                1 => rng.f64_unit() - 0.3,                            // some negative lobes
                2 => if i % 2 == 0 { 1.0 } else { -0.45 - 0.1 * rng.f64_unit() }, // strong alternation -> large normalised weights
                3 => if rng.chance(1, 6) { 0.0 } else { rng.f64_unit() * 0.001 + 1e-6 }, // tiny weights -> highest precision
                // huge lobes far outside the head-room (normalised weights up to ~100, precision down to 7): shifted sums far
                // beyond the component range, yet no accumulator overflow for the short windows this style is used with
                _ => if i % 2 == 0 { 1.0 } else { -1.0 + 0.004 * rng.f64_unit() + if i == 1 { 0.003 } else { 0.0 } },
            })
            .collect();
        let s: f64 = w.iter().sum();
        if s.abs() > 1e-9 {
            w.iter_mut().for_each(|x| *x /= s);
        }
        // keep inside the documented head-room: sum |w| < 4
        let sa: f64 = w.iter().map(|x| x.abs()).sum();
        if sa >= 3.9 && style != 4 {
            let n = w.len() as f64;
            w.iter_mut().for_each(|x| *x = 1.0 / n);
        }
        bounds.push((start, size));
        values.extend_from_slice(&w);
        values.extend(std::iter::repeat(0.0).take(window - size as usize));
    }
    VCoeffs { values, window_size: window, bounds }
}

pub fn generate(out: &mut Out, seed: u64, thorough: bool) {
    let mut rng = Rng::new(seed ^ 0xC02);
    let ex = exts();
    // ---- single passes: every residue of kernel length mod 8 (1..26), of destination width, of height mod 4
    let reps = if thorough { 6 } else { 1 };
    for &pt in ALL_TYPES.iter() {
        let kind = pt_kind(pt);
        let n = pt_comps(pt);
        for horiz in [true, false] {
            // the last six entries (marked by +1000) force the huge-lobe style on even window lengths and >= 4 rows
            for taps_tag in (1..=26u32).chain([40u32, 70, 130, 300, 520]).chain([1004u32, 1006, 1008, 1012, 1016, 1024]) {
                let forced = taps_tag >= 1000;
                let taps = taps_tag % 1000;
                for _ in 0..reps {
                    let style = if forced { 4 } else if taps <= 26 && taps >= 2 { rng.below(5) } else { rng.below(4) };
                    // destination width: covers widths*channels mod 32 over the run; height mod 4
                    let dw = rng.range(1, 35) as u32;
                    let dh = if forced { rng.range(4, 9) as u32 } else { rng.range(1, 9) as u32 };
                    let offset = rng.below(3) as u32;
                    let (sw, sh, c) = if horiz {
                        let sw = taps + rng.below(9) as u32;
                        (sw, dh + offset, synth_coeffs(&mut rng, dw, sw, taps, style))
                    } else {
                        let sh = taps + rng.below(9) as u32;
                        (dw + offset, sh, synth_coeffs(&mut rng, dh, sh, taps, style))
                    };
                    let mode = rng.below(5);
                    let mut src = random_comps(&mut rng, pt, (sw * sh) as usize, mode);
                    if style == 4 && kind != Kind::F32 && kind != Kind::I32 {
                        // extremes alternating along the convolved axis: aligned windows reach sums 100x beyond the range
                        let maxv = kind.max();
                        let phase = rng.below(2) as usize;
                        for y in 0..sh as usize {
                            for x in 0..sw as usize {
                                let along = if horiz { x } else { y };
                                for c in 0..n {
                                    src[(y * sw as usize + x) * n + c] = if (along + phase) % 2 == 0 { maxv - rng.below(2) } else { rng.below(2) };
                                }
                            }
                        }
                    }
                    let reference = catch(|| with_pixel_type!(pt, P => run_pass::<P>(kind, horiz, sw, sh, dw, dh, offset, &c, &src, CpuExtensions::None)));
                    for &(ext_name, ext) in ex.iter() {
                        let got = catch(|| with_pixel_type!(pt, P => run_pass::<P>(kind, horiz, sw, sh, dw, dh, offset, &c, &src, ext)));
                        let f = |r: &Result<Vec<u64>, String>| match r {
                            Ok(v) => comps_hex(kind, v),
                            Err(p) => format!("panic:{}", p.replace(' ', "_")),
                        };
                        let (p16, _) = fir::verif_hooks::normalize16(&c);
                        out.count(&format!("kernel:{}:{}", if horiz { "h" } else { "v" }, ext_name));
                        out.count(&format!("taps_mod8:{}", taps % 8));
                        out.count(&format!("width_comps_mod32:{}", (dw as usize * n) % 32));
                        out.count(&format!("rows_mod4:{}", dh % 4));
                        if kind == Kind::U8 {
                            out.count(&format!("precision16:{}", p16));
                        }
                        let line = format!(
                            "kernel pt={} ext={} pass={} sw={} sh={} dw={} dh={} offset={} ws={} bounds={} vals={} src={} ref={} got={}",
                            pt_name(pt), ext_name, if horiz { "h" } else { "v" }, sw, sh, dw, dh, offset, c.window_size,
                            c.bounds.iter().map(|(s, n)| format!("{}:{}", s, n)).collect::<Vec<_>>().join(","),
                            c.values.iter().map(|v| format!("{:016x}", v.to_bits())).collect::<Vec<_>>().join(","),
                            comps_hex(kind, &src), f(&reference), f(&got)
                        );
                        let k = fnv(line.as_bytes());
                        out.push(line, Some(k));
                    }
                }
            }
        }
    }
    // ---- whole resizes on each SIMD back-end against the portable one
    let n = if thorough { 6000 } else { 1200 };
    for i in 0..n {
        let pt = ALL_TYPES[i % 13];
        let (sw, sh) = (random_size(&mut rng, 70), random_size(&mut rng, 40));
        let (dw, dh) = (random_size(&mut rng, 70), random_size(&mut rng, 40));
        let mode = rng.below(5);
        let mut case = Case {
            pt,
            ext_name: "none",
            ext: CpuExtensions::None,
            sshape: plain(sw, sh),
            dshape: plain(dw, dh),
            alg: AlgSpec::random(&mut rng),
            crop: random_crop(&mut rng, sw, sh),
            alpha: rng.chance(1, 2),
            sbuf: random_comps(&mut rng, pt, (sw * sh) as usize, mode),
            dynamic: false,
            custom: None,
        };
        let portable = run_case(&case, 0xA5);
        for &(ext_name, ext) in ex.iter().skip(1) {
            case.ext_name = ext_name;
            case.ext = ext;
            let got = run_case(&case, 0xA5);
            out.count(&format!("resize:{}", ext_name));
            out.count(&format!("pt:{}", pt_name(pt)));
            let line = format!("{} fill=a5 got={} check=simd gotB={}", line_prefix(&case), got, portable);
            let k = fnv(line.as_bytes());
            out.push(line, Some(k));
        }
    }
    let _ = PixelType::U8;
}
