//! C16 - colour-space mappers: complete tables extracted through the public API, alpha positions,
//! rejected combinations.

use crate::util::*;
use fast_image_resize as fir;
use fir::images::Image;
use fir::{PixelComponentMapper, PixelType};

fn mapper(kind: &str) -> PixelComponentMapper {
    if kind == "srgb" {
        fir::create_srgb_mapper()
    } else {
        fir::create_gamma_22_mapper()
    }
}

fn do_map(m: &PixelComponentMapper, fwd: bool, src: &Image, dst: &mut Image) -> Result<(), String> {
    if fwd { m.forward_map(src, dst) } else { m.backward_map(src, dst) }.map_err(|e| format!("{:?}", e))
}

fn pt_for(kind16: bool, comps: usize) -> PixelType {
    match (kind16, comps) {
        (false, 1) => PixelType::U8,
        (false, 2) => PixelType::U8x2,
        (false, 3) => PixelType::U8x3,
        (false, 4) => PixelType::U8x4,
        (true, 1) => PixelType::U16,
        (true, 2) => PixelType::U16x2,
        (true, 3) => PixelType::U16x3,
        _ => PixelType::U16x4,
    }
}

/// the 16 tables the implementation uses, obtained by pushing complete ramps through single-channel images
pub fn dump_tables(path: &str) {
    let mut s = String::new();
    for kind in ["srgb", "gamma22"] {
        let m = mapper(kind);
        for fwd in [true, false] {
            for in16 in [false, true] {
                for out16 in [false, true] {
                    let n = if in16 { 65536u32 } else { 256 };
                    let comps: Vec<u64> = (0..n as u64).collect();
                    let src = image_from_comps(n, 1, pt_for(in16, 1), &comps);
                    let mut dst = Image::new(n, 1, pt_for(out16, 1));
                    do_map(&m, fwd, &src, &mut dst).unwrap();
                    let out = image_comps(&dst);
                    s.push_str(&format!(
                        "{}_{}_{}_{} {} {} {}\n",
                        kind,
                        if fwd { "fwd" } else { "bwd" },
                        if in16 { "u16" } else { "u8" },
                        if out16 { "u16" } else { "u8" },
                        n,
                        if out16 { 16 } else { 8 },
                        out.iter().map(|v| format!("{:x}", v)).collect::<Vec<_>>().join(",")
                    ));
                }
            }
        }
    }
    std::fs::write(path, s).unwrap();
}

pub fn generate(out: &mut Out, seed: u64, thorough: bool) {
    let mut rng = Rng::new(seed ^ 0xC16);
    // complete tables (again, through multi-row images this time) for the entry-by-entry comparison
    // with the transfer function evaluated by the model
    for kind in ["srgb", "gamma22"] {
        let m = mapper(kind);
        for fwd in [true, false] {
            for in16 in [false, true] {
                for out16 in [false, true] {
                    let n = if in16 { 65536u32 } else { 256 };
                    let comps: Vec<u64> = (0..n as u64).collect();
                    let (w, h) = if in16 { (256, 256) } else { (16, 16) };
                    let src = image_from_comps(w, h, pt_for(in16, 1), &comps);
                    let mut dst = Image::new(w, h, pt_for(out16, 1));
                    let got = match catch(|| do_map(&m, fwd, &src, &mut dst)) {
                        Ok(Ok(())) => comps_hex(if out16 { Kind::U16 } else { Kind::U8 }, &image_comps(&dst)),
                        Ok(Err(e)) => format!("err:{}", e),
                        Err(p) => format!("panic:{}", p.replace(' ', "_")),
                    };
                    out.count("table");
                    let line = format!("ctable kind={} dir={} in={} out={} got={}", kind, if fwd { "fwd" } else { "bwd" }, if in16 { 16 } else { 8 }, if out16 { 16 } else { 8 }, got);
                    let k = fnv(line[..60].as_bytes());
                    out.push(line, Some(k));
                }
            }
        }
    }
    // images with alpha at every position of rows of length 1..9, all type pairs, both directions,
    // two-image and in-place
    let n_rounds = if thorough { 6 } else { 2 };
    for kind in ["srgb", "gamma22"] {
        let m = mapper(kind);
        for fwd in [true, false] {
            for comps in 1..=4usize {
                for in16 in [false, true] {
                    for out16 in [false, true] {
                        for w in 1..=9u32 {
                            for _ in 0..n_rounds {
                                let h = rng.range(1, 3) as u32;
                                let (spt, dpt) = (pt_for(in16, comps), pt_for(out16, comps));
                                let max = if in16 { 65536 } else { 256 };
                                let data: Vec<u64> = (0..(w * h) as usize * comps).map(|_| match rng.below(5) { 0 => 0, 1 => max - 1, _ => rng.below(max) }).collect();
                                let src = image_from_comps(w, h, spt, &data);
                                let mut dst = Image::new(w, h, dpt);
                                dst.buffer_mut().iter_mut().for_each(|b| *b = 0xA5);
                                let got = match catch(|| do_map(&m, fwd, &src, &mut dst)) {
                                    Ok(Ok(())) => comps_hex(pt_kind(dpt), &image_comps(&dst)),
                                    Ok(Err(e)) => format!("err:{}", e),
                                    Err(p) => format!("panic:{}", p.replace(' ', "_")),
                                };
                                out.count(&format!("map:{}->{}", pt_name(spt), pt_name(dpt)));
                                let line = format!("cmap kind={} dir={} src={} dst={} w={} h={} variant=two in={} got={}", kind, if fwd { "fwd" } else { "bwd" }, pt_name(spt), pt_name(dpt), w, h, comps_hex(pt_kind(spt), &data), got);
                                let k = fnv(line.as_bytes());
                                out.push(line, Some(k));
                                if in16 == out16 {
                                    let mut img = image_from_comps(w, h, spt, &data);
                                    let r = catch(|| if fwd { m.forward_map_inplace(&mut img) } else { m.backward_map_inplace(&mut img) }.map_err(|e| format!("{:?}", e)));
                                    let got = match r {
                                        Ok(Ok(())) => comps_hex(pt_kind(spt), &image_comps(&img)),
                                        Ok(Err(e)) => format!("err:{}", e),
                                        Err(p) => format!("panic:{}", p.replace(' ', "_")),
                                    };
                                    let line = format!("cmap kind={} dir={} src={} dst={} w={} h={} variant=inplace in={} got={}", kind, if fwd { "fwd" } else { "bwd" }, pt_name(spt), pt_name(dpt), w, h, comps_hex(pt_kind(spt), &data), got);
                                    let k = fnv(line.as_bytes());
                                    out.push(line, Some(k));
                                }
                            }
                        }
                    }
                }
            }
        }
    }
    // rejected combinations: all 13 x 13 type pairs with equal sizes, and a size mismatch
    let m = mapper("srgb");
    for &s in ALL_TYPES.iter() {
        for &d in ALL_TYPES.iter() {
            for dims in ["same", "diff"] {
                let src = Image::new(3, 2, s);
                let mut dst = if dims == "same" { Image::new(3, 2, d) } else { Image::new(2, 3, d) };
                let got = match catch(|| m.forward_map(&src, &mut dst).map_err(|e| format!("{:?}", e))) {
                    Ok(Ok(())) => "ok".to_string(),
                    Ok(Err(e)) => e,
                    Err(p) => format!("panic:{}", p.replace(' ', "_")),
                };
                out.count(&format!("reject:{}", got));
                out.push(format!("cmap-reject src={} dst={} dims={} got={}", pt_name(s), pt_name(d), dims, got), Some(fnv(format!("{}{}{}", pt_name(s), pt_name(d), dims).as_bytes())));
            }
        }
        let mut img = Image::new(3, 2, s);
        let got = match catch(|| m.forward_map_inplace(&mut img).map_err(|e| format!("{:?}", e))) {
            Ok(Ok(())) => "ok".to_string(),
            Ok(Err(e)) => e,
            Err(p) => format!("panic:{}", p.replace(' ', "_")),
        };
        out.push(format!("cmap-reject src={} dst={} dims=inplace got={}", pt_name(s), pt_name(s), got), None);
    }
}
