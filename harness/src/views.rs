//! Construction of every container kind over one tagged buffer, described by a shape that the Lean
//! model understands:  T(off,w,h,len)  |  C(<shape>,l,t,w,h)

use fast_image_resize as fir;
use fir::images::{TypedCroppedImage, TypedCroppedImageMut, TypedImage, TypedImageRef};
use fir::pixels::InnerPixel;

#[derive(Clone, Debug)]
pub enum Shape {
    T { off: usize, w: u32, h: u32, len: usize },
    C { inner: Box<Shape>, l: u32, t: u32, w: u32, h: u32 },
}

impl Shape {
    pub fn desc(&self) -> String {
        match self {
            Shape::T { off, w, h, len } => format!("T({},{},{},{})", off, w, h, len),
            Shape::C { inner, l, t, w, h } => format!("C({},{},{},{},{})", inner.desc(), l, t, w, h),
        }
    }
    pub fn width(&self) -> u32 {
        match self {
            Shape::T { w, .. } | Shape::C { w, .. } => *w,
        }
    }
    pub fn height(&self) -> u32 {
        match self {
            Shape::T { h, .. } | Shape::C { h, .. } => *h,
        }
    }
    pub fn depth(&self) -> usize {
        match self {
            Shape::T { .. } => 0,
            Shape::C { inner, .. } => 1 + inner.depth(),
        }
    }
    /// pixels of the underlying buffer this shape needs
    pub fn buf_len(&self) -> usize {
        match self {
            Shape::T { off, len, .. } => off + len,
            Shape::C { inner, .. } => inner.buf_len(),
        }
    }
    /// buffer index (in pixels) of every pixel of the view, row-major - computed from the shape alone
    pub fn positions(&self) -> Vec<usize> {
        let (off, bw, _, _) = self.base();
        let (mut l, mut t) = (0usize, 0usize);
        for c in self.crops() {
            l += c.0 as usize;
            t += c.1 as usize;
        }
        let mut v = Vec::new();
        for y in 0..self.height() as usize {
            for x in 0..self.width() as usize {
                v.push(off + (y + t) * bw as usize + x + l);
            }
        }
        v
    }
    fn base(&self) -> (usize, u32, u32, usize) {
        match self {
            Shape::T { off, w, h, len } => (*off, *w, *h, *len),
            Shape::C { inner, .. } => inner.base(),
        }
    }
    fn crops(&self) -> Vec<(u32, u32, u32, u32)> {
        match self {
            Shape::T { .. } => vec![],
            Shape::C { inner, l, t, w, h } => {
                let mut v = inner.crops();
                v.push((*l, *t, *w, *h));
                v
            }
        }
    }
}

/// Run `$body` with `$v` bound to an immutable view of the given shape (depth 0..=2) over `$buf`.
#[macro_export]
macro_rules! with_view {
    ($shape:expr, $buf:expr, $P:ty, $v:ident => $body:expr) => {{
        let (off, w, h, len) = $crate::views::shape_base($shape);
        let crops = $crate::views::shape_crops($shape);
        let base = fast_image_resize::images::TypedImageRef::<$P>::new(w, h, &$buf[off..off + len]).unwrap();
        match crops.len() {
            0 => {
                let $v = &base;
                $body
            }
            1 => {
                let c = crops[0];
                let v1 = fast_image_resize::images::TypedCroppedImage::from_ref(&base, c.0, c.1, c.2, c.3).unwrap();
                let $v = &v1;
                $body
            }
            _ => {
                let c = crops[0];
                let d = crops[1];
                let v1 = fast_image_resize::images::TypedCroppedImage::from_ref(&base, c.0, c.1, c.2, c.3).unwrap();
                let v2 = fast_image_resize::images::TypedCroppedImage::from_ref(&v1, d.0, d.1, d.2, d.3).unwrap();
                let $v = &v2;
                $body
            }
        }
    }};
}

/// Run `$body` with `$v` bound to a mutable view (`&mut impl ImageViewMut`) of the given shape.
#[macro_export]
macro_rules! with_view_mut {
    ($shape:expr, $buf:expr, $P:ty, $v:ident => $body:expr) => {{
        let (off, w, h, len) = $crate::views::shape_base($shape);
        let crops = $crate::views::shape_crops($shape);
        let mut base = fast_image_resize::images::TypedImage::<$P>::from_pixels_slice(w, h, &mut $buf[off..off + len]).unwrap();
        match crops.len() {
            0 => {
                let $v = &mut base;
                $body
            }
            1 => {
                let c = crops[0];
                let mut v1 = fast_image_resize::images::TypedCroppedImageMut::from_ref(&mut base, c.0, c.1, c.2, c.3).unwrap();
                let $v = &mut v1;
                $body
            }
            _ => {
                let c = crops[0];
                let d = crops[1];
                let mut v1 = fast_image_resize::images::TypedCroppedImageMut::from_ref(&mut base, c.0, c.1, c.2, c.3).unwrap();
                let mut v2 = fast_image_resize::images::TypedCroppedImageMut::from_ref(&mut v1, d.0, d.1, d.2, d.3).unwrap();
                let $v = &mut v2;
                $body
            }
        }
    }};
}

pub fn shape_base(s: &Shape) -> (usize, u32, u32, usize) {
    s.base()
}

pub fn shape_crops(s: &Shape) -> Vec<(u32, u32, u32, u32)> {
    s.crops()
}

#[allow(dead_code)]
fn _unused<P: InnerPixel>(_: TypedImageRef<P>, _: TypedImage<P>, _: Option<TypedCroppedImage<TypedImageRef<P>>>, _: Option<TypedCroppedImageMut<TypedImage<P>>>) {}

/// A logical `w x h` view placed in different containers: exact typed image, typed image over a
/// longer buffer with an offset, crop inside a parent with margins, nested crop.
pub fn placements(w: u32, h: u32, variant: usize) -> Shape {
    match variant {
        0 => Shape::T { off: 0, w, h, len: (w * h) as usize },
        1 => Shape::T { off: 3, w, h, len: (w * h) as usize + 5 },
        2 => {
            // parent with margins left 1, top 2, right 2, bottom 1
            let (pw, ph) = (w + 3, h + 3);
            Shape::C {
                inner: Box::new(Shape::T { off: 0, w: pw, h: ph, len: (pw * ph) as usize }),
                l: 1,
                t: 2,
                w,
                h,
            }
        }
        3 => {
            // flush against the right / bottom edge of an offset parent over a longer buffer
            let (pw, ph) = (w + 2, h + 1);
            Shape::C {
                inner: Box::new(Shape::T { off: 2, w: pw, h: ph, len: (pw * ph) as usize + 4 }),
                l: 2,
                t: 1,
                w,
                h,
            }
        }
        _ => {
            let (pw, ph) = (w + 4, h + 4);
            let mid = Shape::C {
                inner: Box::new(Shape::T { off: 1, w: pw, h: ph, len: (pw * ph) as usize + 2 }),
                l: 1,
                t: 1,
                w: w + 2,
                h: h + 3,
            };
            Shape::C { inner: Box::new(mid), l: 1, t: 2, w, h }
        }
    }
}
pub const PLACEMENTS: usize = 5;
