//! C08 - rayon: results are independent of the thread-pool size; band arithmetic never panics.
//! Built with `--features rayon`.

use crate::util::*;
use fast_image_resize as fir;
use fir::images::Image;
use fir::{FilterType, MulDiv, PixelType, ResizeAlg, ResizeOptions, Resizer};

#[cfg(feature = "rayon")]
fn in_pool<T: Send>(threads: usize, f: impl FnOnce() -> T + Send) -> T {
    let pool = rayon::ThreadPoolBuilder::new().num_threads(threads).build().unwrap();
    pool.install(f)
}

#[cfg(not(feature = "rayon"))]
fn in_pool<T: Send>(_threads: usize, f: impl FnOnce() -> T + Send) -> T {
    f()
}

fn random_image(rng: &mut Rng, w: u32, h: u32, pt: PixelType) -> Image<'static> {
    let kind = pt_kind(pt);
    let n = (w as usize) * (h as usize) * pt_comps(pt);
    let comps: Vec<u64> = (0..n)
        .map(|_| match kind {
            Kind::U8 => rng.below(256),
            Kind::U16 => rng.below(65536),
            Kind::I32 => (rng.next() as i32 >> 8) as u32 as u64,
            Kind::F32 => (rng.f64_unit() as f32).to_bits() as u64,
        })
        .collect();
    image_from_comps(w, h, pt, &comps)
}

pub fn generate(out: &mut Out, seed: u64, thorough: bool) {
    let mut rng = Rng::new(seed ^ 0xC08);
    // ---- band-count arithmetic through the hook
    #[cfg(feature = "rayon")]
    {
        let edge: [u32; 22] = [0, 1, 2, 3, 15, 16, 17, 127, 128, 129, 255, 256, 257, 4095, 4096, 16384, 65535, 65536, 65537, 1 << 31, u32::MAX - 1, u32::MAX];
        for &w in &edge {
            for &h in &edge {
                let got = catch(|| fir::verif_hooks::max_parts_number(w, h));
                let gs = match got {
                    Ok((a, b)) => format!("{},{}", a, b),
                    Err(p) => format!("panic:{}", p.replace(' ', "_")),
                };
                out.count("maxparts");
                let line = format!("maxparts w={} h={} got={}", w, h, gs);
                let k = fnv(line.as_bytes());
                out.push(line, Some(k));
            }
        }
        for _ in 0..(if thorough { 200000 } else { 20000 }) {
            let pick = |rng: &mut Rng| -> u32 {
                match rng.below(4) {
                    0 => rng.below(600) as u32,
                    1 => 65536u32.wrapping_add(rng.below(9) as u32).wrapping_sub(4),
                    2 => rng.below(1 << 20) as u32,
                    _ => rng.next() as u32,
                }
            };
            let (w, h) = (pick(&mut rng), pick(&mut rng));
            let got = catch(|| fir::verif_hooks::max_parts_number(w, h));
            let gs = match got {
                Ok((a, b)) => format!("{},{}", a, b),
                Err(p) => format!("panic:{}", p.replace(' ', "_")),
            };
            out.count("maxparts");
            out.push(format!("maxparts w={} h={} got={}", w, h, gs), None);
        }
    }
    // ---- resizes under pools of different sizes
    let mut geoms: Vec<(u32, u32, u32, u32)> = vec![
        (2, 65536, 1, 65536), (2, 65537, 1, 65537), (65536, 2, 65536, 1), (3, 65535, 2, 65536), (65536, 1, 65537, 2),
        (1, 300, 1, 200), (300, 1, 200, 1), (1, 7, 3, 5), (64, 64, 33, 31), (200, 150, 80, 333), (17, 400, 40, 130),
        (400, 17, 130, 40), (128, 128, 128, 64), (128, 128, 64, 128),
    ];
    let n_random = if thorough { 120 } else { 30 };
    for _ in 0..n_random {
        geoms.push((rng.range(1, 300) as u32, rng.range(1, 300) as u32, rng.range(1, 300) as u32, rng.range(1, 300) as u32));
    }
    let algs = [
        ("nearest", ResizeAlg::Nearest),
        ("conv:lanczos3", ResizeAlg::Convolution(FilterType::Lanczos3)),
        ("conv:box", ResizeAlg::Convolution(FilterType::Box)),
        ("interp:bilinear", ResizeAlg::Interpolation(FilterType::Bilinear)),
        ("ss:catmullrom:2", ResizeAlg::SuperSampling(FilterType::CatmullRom, 2)),
    ];
    let thread_counts: [usize; 9] = [2, 3, 4, 5, 7, 8, 16, 32, 61];
    for (gi, &(sw, sh, dw, dh)) in geoms.iter().enumerate() {
        let big = sw.max(sh).max(dw).max(dh) > 1000;
        for &pt in ALL_TYPES.iter() {
            if (big || gi >= 14) && rng.below(4) != 0 {
                continue;
            }
            let (alg_name, alg) = *rng.pick(&algs);
            let use_alpha = rng.chance(1, 2);
            let src = random_image(&mut rng, sw, sh, pt);
            let opts = ResizeOptions::new().resize_alg(alg).use_alpha(use_alpha);
            let reference = catch(|| {
                in_pool(1, || {
                    let mut dst = Image::new(dw, dh, pt);
                    let mut r = Resizer::new();
                    r.resize(&src, &mut dst, &opts).map(|_| dst.into_vec()).map_err(|e| format!("{:?}", e))
                })
            });
            for &threads in &thread_counts {
                if rng.below(3) != 0 && !thorough {
                    continue;
                }
                let mut equal = true;
                let mut outcome = "ok".to_string();
                for _rep in 0..3 {
                    let got = catch(|| {
                        in_pool(threads, || {
                            let mut dst = Image::new(dw, dh, pt);
                            let mut r = Resizer::new();
                            r.resize(&src, &mut dst, &opts).map(|_| dst.into_vec()).map_err(|e| format!("{:?}", e))
                        })
                    });
                    match (&reference, &got) {
                        (Ok(a), Ok(b)) => {
                            if a != b {
                                equal = false;
                            }
                        }
                        (_, Err(p)) => {
                            outcome = format!("panic:{}", p.replace(' ', "_"));
                            equal = false;
                        }
                        (Err(p), _) => {
                            outcome = format!("refpanic:{}", p.replace(' ', "_"));
                            equal = false;
                        }
                    }
                }
                out.count(&format!("resize:threads={}", threads));
                out.count(&format!("resize:{}", alg_name));
                let line = format!(
                    "threads kind=resize pt={} src={}x{} dst={}x{} alg={} alpha={} threads={} outcome={} equal={}",
                    pt_name(pt), sw, sh, dw, dh, alg_name, use_alpha as u8, threads, outcome, equal as u8
                );
                let k = fnv(line.as_bytes());
                out.push(line, Some(k));
            }
        }
    }
    // ---- resizes through cropped views (band splitting of cropped sources / destinations: the split of a view
    //      delegates to the wrapped image with the view's own offsets)
    {
        use crate::rcase::*;
        use crate::views::*;
        let nview = if thorough { 400 } else { 90 };
        for i in 0..nview {
            let pt = ALL_TYPES[i % 13];
            let (sw, sh) = (rng.range(40, 220) as u32, rng.range(40, 220) as u32);
            let (dw, dh) = (rng.range(40, 260) as u32, rng.range(40, 260) as u32);
            let mode = rng.below(3);
            let fi = rng.below(7) as usize;
            let mut case = Case {
                pt,
                ext_name: "default",
                ext: fir::CpuExtensions::default(),
                sshape: placements(sw, sh, rng.range(2, 4) as usize),
                dshape: placements(dw, dh, rng.below(PLACEMENTS as u64) as usize),
                alg: if rng.chance(1, 5) { AlgSpec::nearest() } else { AlgSpec::conv(fi) },
                crop: CropSpec::None,
                alpha: rng.chance(1, 2),
                sbuf: Vec::new(),
                dynamic: false,
                custom: None,
            };
            case.sbuf = random_comps(&mut rng, pt, case.sshape.buf_len(), mode);
            let reference = catch(|| in_pool(1, || run_case(&case, 0xA5)));
            for &threads in &[2usize, 3, 8, 16] {
                let got = catch(|| in_pool(threads, || run_case(&case, 0xA5)));
                let (outcome, equal) = match (&reference, &got) {
                    (Ok(a), Ok(b)) => (if b.starts_with("panic") { b.chars().take(120).collect::<String>() } else { "ok".to_string() }, a == b),
                    (_, Err(p)) => (format!("panic:{}", p.replace(' ', "_")), false),
                    (Err(p), _) => (format!("refpanic:{}", p.replace(' ', "_")), false),
                };
                out.count(&format!("views:threads={}", threads));
                let line = format!(
                    "threads kind=resize-views:{}:{} pt={} src={}x{} dst={}x{} alg={} alpha={} threads={} outcome={} equal={}",
                    case.sshape.desc(), case.dshape.desc(), pt_name(pt), sw, sh, dw, dh, case.alg.name, case.alpha as u8, threads, outcome, equal as u8
                );
                let k = fnv(line.as_bytes());
                out.push(line, Some(k));
            }
        }
    }
    // ---- alpha operations under pools
    for &pt in ALPHA_TYPES.iter() {
        for &(w, h) in &[(1u32, 65536u32), (65537, 1), (33, 77), (256, 256), (1, 1), (5, 300)] {
            let src = random_image(&mut rng, w, h, pt);
            for op in ["mul", "div", "mul-inplace", "div-inplace"] {
                let run = |threads: usize| {
                    catch(|| {
                        in_pool(threads, || {
                            let md = MulDiv::new();
                            match op {
                                "mul" => {
                                    let mut dst = Image::new(w, h, pt);
                                    md.multiply_alpha(&src, &mut dst).unwrap();
                                    dst.into_vec()
                                }
                                "div" => {
                                    let mut dst = Image::new(w, h, pt);
                                    md.divide_alpha(&src, &mut dst).unwrap();
                                    dst.into_vec()
                                }
                                "mul-inplace" => {
                                    let mut img = src.copy();
                                    md.multiply_alpha_inplace(&mut img).unwrap();
                                    img.into_vec()
                                }
                                _ => {
                                    let mut img = src.copy();
                                    md.divide_alpha_inplace(&mut img).unwrap();
                                    img.into_vec()
                                }
                            }
                        })
                    })
                };
                let reference = run(1);
                for &threads in &[2usize, 5, 16, 32] {
                    let got = run(threads);
                    let (outcome, equal) = match (&reference, &got) {
                        (Ok(a), Ok(b)) => ("ok".to_string(), a == b),
                        (_, Err(p)) => (format!("panic:{}", p.replace(' ', "_")), false),
                        (Err(p), _) => (format!("refpanic:{}", p.replace(' ', "_")), false),
                    };
                    out.count(&format!("alpha:threads={}", threads));
                    let line = format!(
                        "threads kind=alpha-{} pt={} src={}x{} dst={}x{} alg=- alpha=1 threads={} outcome={} equal={}",
                        op, pt_name(pt), w, h, w, h, threads, outcome, equal as u8
                    );
                    let k = fnv(line.as_bytes());
                    out.push(line, Some(k));
                }
            }
        }
    }
}
