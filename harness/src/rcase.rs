//! One resize through the real code, through any container layout, as a request line for the model.

use crate::util::*;
use crate::views::*;
use fast_image_resize as fir;
use fir::images::{CroppedImage, CroppedImageMut, Image, ImageRef, TypedCroppedImage, TypedCroppedImageMut, TypedImage, TypedImageRef};
use fir::pixels::InnerPixel;
use fir::{CpuExtensions, FilterType, PixelTrait, PixelType, ResizeAlg, ResizeOptions, Resizer};

pub const FILTERS: [(&str, FilterType); 7] = [
    ("box", FilterType::Box),
    ("bilinear", FilterType::Bilinear),
    ("hamming", FilterType::Hamming),
    ("catmullrom", FilterType::CatmullRom),
    ("mitchell", FilterType::Mitchell),
    ("gaussian", FilterType::Gaussian),
    ("lanczos3", FilterType::Lanczos3),
];

use std::sync::atomic::{AtomicU64, Ordering};
static PARAM_A: AtomicU64 = AtomicU64::new(0);
static PARAM_B: AtomicU64 = AtomicU64::new(0);

fn lobes_kernel(x: f64) -> f64 {
    let a = f64::from_bits(PARAM_A.load(Ordering::Relaxed));
    let b = f64::from_bits(PARAM_B.load(Ordering::Relaxed));
    let x = x.abs();
    if x < 0.5 { a } else if x < 1.5 { -b } else { 0.0 }
}
fn wide_kernel(x: f64) -> f64 {
    let s = f64::from_bits(PARAM_A.load(Ordering::Relaxed));
    if x.abs() < s { 1.0 } else { 0.0 }
}
fn scaled_kernel(x: f64) -> f64 {
    let k = f64::from_bits(PARAM_A.load(Ordering::Relaxed));
    let x = x.abs();
    k * (if x < 1.0 { 1.0 - x } else { 0.0 })
}

/// custom kernels shared with the Lean model (same formulas); parameters live in statics because a
/// `Filter` takes a plain `fn(f64) -> f64`
#[derive(Clone, Copy, Debug)]
pub enum Custom {
    Lobes(f64, f64),
    Wide(f64),
    Scaled(f64),
}

impl Custom {
    pub fn name(&self) -> String {
        match self {
            Custom::Lobes(a, b) => format!("custom~lobes~{:016x}~{:016x}", a.to_bits(), b.to_bits()),
            Custom::Wide(s) => format!("custom~wide~{:016x}", s.to_bits()),
            Custom::Scaled(k) => format!("custom~scaled~{:016x}", k.to_bits()),
        }
    }
    /// set the parameters and build the filter; must be called right before the filter is used
    pub fn install(&self) -> FilterType {
        let (f, support): (fn(f64) -> f64, f64) = match *self {
            Custom::Lobes(a, b) => {
                PARAM_A.store(a.to_bits(), Ordering::Relaxed);
                PARAM_B.store(b.to_bits(), Ordering::Relaxed);
                (lobes_kernel, 1.5)
            }
            Custom::Wide(s) => {
                PARAM_A.store(s.to_bits(), Ordering::Relaxed);
                (wide_kernel, s)
            }
            Custom::Scaled(k) => {
                PARAM_A.store(k.to_bits(), Ordering::Relaxed);
                (scaled_kernel, 1.0)
            }
        };
        FilterType::Custom(fir::Filter::new("custom", f, support).unwrap())
    }
}

#[derive(Clone)]
pub struct AlgSpec {
    pub name: String,
    pub alg: ResizeAlg,
}

impl AlgSpec {
    pub fn nearest() -> Self {
        AlgSpec { name: "nearest".into(), alg: ResizeAlg::Nearest }
    }
    pub fn conv(fi: usize) -> Self {
        AlgSpec { name: format!("conv:{}", FILTERS[fi].0), alg: ResizeAlg::Convolution(FILTERS[fi].1) }
    }
    pub fn interp(fi: usize) -> Self {
        AlgSpec { name: format!("interp:{}", FILTERS[fi].0), alg: ResizeAlg::Interpolation(FILTERS[fi].1) }
    }
    pub fn custom(c: Custom, mode: u8, m: u8) -> Self {
        let ft = c.install();
        match mode {
            0 => AlgSpec { name: format!("conv:{}", c.name()), alg: ResizeAlg::Convolution(ft) },
            1 => AlgSpec { name: format!("interp:{}", c.name()), alg: ResizeAlg::Interpolation(ft) },
            _ => AlgSpec { name: format!("ss:{}:{}", c.name(), m), alg: ResizeAlg::SuperSampling(ft, m) },
        }
    }
    pub fn ss(fi: usize, m: u8) -> Self {
        AlgSpec { name: format!("ss:{}:{}", FILTERS[fi].0, m), alg: ResizeAlg::SuperSampling(FILTERS[fi].1, m) }
    }
    pub fn random(rng: &mut Rng) -> Self {
        let fi = rng.below(7) as usize;
        match rng.below(10) {
            0 => Self::nearest(),
            1..=5 => Self::conv(fi),
            6 | 7 => Self::interp(fi),
            _ => Self::ss(fi, *rng.pick(&[1u8, 2, 3, 8])),
        }
    }
}

#[derive(Clone, Copy)]
pub enum CropSpec {
    None,
    Box(f64, f64, f64, f64),
    Fit(f64, f64),
}

impl CropSpec {
    pub fn desc(&self) -> String {
        match self {
            CropSpec::None => "none".into(),
            CropSpec::Box(l, t, w, h) => format!("box:{:016x},{:016x},{:016x},{:016x}", l.to_bits(), t.to_bits(), w.to_bits(), h.to_bits()),
            CropSpec::Fit(x, y) => format!("fit:{:016x},{:016x}", x.to_bits(), y.to_bits()),
        }
    }
}

#[derive(Clone)]
pub struct Case {
    pub pt: PixelType,
    pub ext_name: &'static str,
    pub ext: CpuExtensions,
    pub sshape: Shape,
    pub dshape: Shape,
    pub alg: AlgSpec,
    pub crop: CropSpec,
    pub alpha: bool,
    /// components of every pixel of the source buffer
    pub sbuf: Vec<u64>,
    /// dynamic entry point (Image / ImageRef / CroppedImage) instead of the typed one
    pub dynamic: bool,
    /// custom kernel whose parameters must be installed before the run
    pub custom: Option<Custom>,
}

impl Case {
    pub fn options(&self) -> ResizeOptions {
        // documented defaults are relied upon, not restated: alpha handling on, Convolution(Lanczos3),
        // centering (0.5, 0.5)
        let mut o = ResizeOptions::new();
        if self.alg.alg != ResizeAlg::Convolution(FilterType::Lanczos3) {
            o = o.resize_alg(self.alg.alg);
        }
        if !self.alpha {
            o = o.use_alpha(false);
        }
        match self.crop {
            CropSpec::None => {}
            CropSpec::Box(l, t, w, h) => o = o.crop(l, t, w, h),
            CropSpec::Fit(x, y) if x == 0.5 && y == 0.5 => o = o.fit_into_destination(None),
            CropSpec::Fit(x, y) => o = o.fit_into_destination(Some((x, y))),
        }
        o
    }
    pub fn dlen(&self) -> usize {
        self.dshape.buf_len()
    }
}

pub static GUARD_PAGES: std::sync::atomic::AtomicBool = std::sync::atomic::AtomicBool::new(false);
/// dynamic entry: hand the cropped SOURCE over as a `CroppedImageMut` (its read-only view) instead of a `CroppedImage`
pub static SRC_AS_MUT_VIEW: std::sync::atomic::AtomicBool = std::sync::atomic::AtomicBool::new(false);

extern "C" {
    fn mmap(addr: *mut u8, len: usize, prot: i32, flags: i32, fd: i32, off: i64) -> *mut u8;
    fn mprotect(addr: *mut u8, len: usize, prot: i32) -> i32;
    fn munmap(addr: *mut u8, len: usize) -> i32;
}

/// pixels placed flush against an inaccessible page (after the last pixel) and preceded by one:
/// an out-of-bounds SIMD load or `get_unchecked` faults instead of reading a neighbour
pub struct Guarded<P> {
    base: *mut u8,
    total: usize,
    ptr: *mut P,
    len: usize,
}

impl<P: InnerPixel> Guarded<P> {
    pub fn new(bytes: &[u8]) -> Self {
        const PAGE: usize = 4096;
        let data = (bytes.len() + PAGE - 1) / PAGE * PAGE;
        let total = data + 2 * PAGE;
        unsafe {
            let base = mmap(std::ptr::null_mut(), total, 3, 0x22, -1, 0); // PROT_READ|WRITE, MAP_PRIVATE|MAP_ANONYMOUS
            assert!(!base.is_null() && base as isize != -1);
            mprotect(base, PAGE, 0);
            mprotect(base.add(PAGE + data), PAGE, 0);
            let start = base.add(PAGE + data - bytes.len());
            std::ptr::copy_nonoverlapping(bytes.as_ptr(), start, bytes.len());
            Guarded { base, total, ptr: start as *mut P, len: bytes.len() / P::size() }
        }
    }
    pub fn slice(&self) -> &[P] {
        unsafe { std::slice::from_raw_parts(self.ptr, self.len) }
    }
    pub fn slice_mut(&mut self) -> &mut [P] {
        unsafe { std::slice::from_raw_parts_mut(self.ptr, self.len) }
    }
}

impl<P> Drop for Guarded<P> {
    fn drop(&mut self) {
        unsafe { munmap(self.base, self.total) };
    }
}

fn pixels_from_bytes<P: InnerPixel>(bytes: &[u8]) -> Vec<P> {
    let n = bytes.len() / P::size();
    let mut v = vec![P::default(); n];
    unsafe { std::ptr::copy_nonoverlapping(bytes.as_ptr(), v.as_mut_ptr() as *mut u8, n * P::size()) };
    v
}

fn bytes_of_pixels<P: InnerPixel>(px: &[P]) -> Vec<u8> {
    let mut b = vec![0u8; px.len() * P::size()];
    unsafe { std::ptr::copy_nonoverlapping(px.as_ptr() as *const u8, b.as_mut_ptr(), b.len()) };
    b
}

/// pad a shape of depth 1 to depth 2 with an identity crop (so that one nested type serves all)
fn crops2(s: &Shape) -> [(u32, u32, u32, u32); 2] {
    let c = shape_crops(s);
    match c.len() {
        1 => [c[0], (0, 0, c[0].2, c[0].3)],
        _ => [c[0], c[1]],
    }
}

fn run_typed<P: PixelTrait>(case: &Case, resizer: &mut Resizer, sbytes: &[u8], dbytes: &mut Vec<u8>) -> Result<(), fir::ResizeError> {
    let guard = GUARD_PAGES.load(std::sync::atomic::Ordering::Relaxed) && std::mem::align_of::<P>() <= 4 && sbytes.len() % 4 == 0 && dbytes.len() % 4 == 0;
    let mut gs: Option<Guarded<P>> = if guard { Some(Guarded::new(sbytes)) } else { None };
    let mut gd: Option<Guarded<P>> = if guard { Some(Guarded::new(dbytes)) } else { None };
    let spx_v: Vec<P> = if guard { Vec::new() } else { pixels_from_bytes(sbytes) };
    let mut dpx_v: Vec<P> = if guard { Vec::new() } else { pixels_from_bytes(dbytes) };
    let spx: &[P] = match gs.as_mut() { Some(g) => g.slice(), None => &spx_v };
    let dpx: &mut [P] = match gd.as_mut() { Some(g) => g.slice_mut(), None => &mut dpx_v };
    let opts = case.options();
    let (soff, sw, sh, slen) = shape_base(&case.sshape);
    let (doff, dw, dh, dlen) = shape_base(&case.dshape);
    let sbase = TypedImageRef::<P>::new(sw, sh, &spx[soff..soff + slen]).unwrap();
    let r = {
        let mut dbase = TypedImage::<P>::from_pixels_slice(dw, dh, &mut dpx[doff..doff + dlen]).unwrap();
        match (case.sshape.depth() > 0, case.dshape.depth() > 0) {
            (false, false) => resizer.resize_typed(&sbase, &mut dbase, &opts),
            (true, false) => {
                let c = crops2(&case.sshape);
                let s1 = TypedCroppedImage::from_ref(&sbase, c[0].0, c[0].1, c[0].2, c[0].3).unwrap();
                let s2 = TypedCroppedImage::from_ref(&s1, c[1].0, c[1].1, c[1].2, c[1].3).unwrap();
                resizer.resize_typed(&s2, &mut dbase, &opts)
            }
            (false, true) => {
                let c = crops2(&case.dshape);
                let mut d1 = TypedCroppedImageMut::from_ref(&mut dbase, c[0].0, c[0].1, c[0].2, c[0].3).unwrap();
                let mut d2 = TypedCroppedImageMut::from_ref(&mut d1, c[1].0, c[1].1, c[1].2, c[1].3).unwrap();
                resizer.resize_typed(&sbase, &mut d2, &opts)
            }
            (true, true) => {
                let c = crops2(&case.sshape);
                let s1 = TypedCroppedImage::from_ref(&sbase, c[0].0, c[0].1, c[0].2, c[0].3).unwrap();
                let s2 = TypedCroppedImage::from_ref(&s1, c[1].0, c[1].1, c[1].2, c[1].3).unwrap();
                let c = crops2(&case.dshape);
                let mut d1 = TypedCroppedImageMut::from_ref(&mut dbase, c[0].0, c[0].1, c[0].2, c[0].3).unwrap();
                let mut d2 = TypedCroppedImageMut::from_ref(&mut d1, c[1].0, c[1].1, c[1].2, c[1].3).unwrap();
                resizer.resize_typed(&s2, &mut d2, &opts)
            }
        }
    };
    *dbytes = bytes_of_pixels(dpx);
    r
}

/// dynamic entry: shapes T(0,..) (ImageRef / Image over a slice, possibly longer than needed) and one crop level
fn run_dynamic(case: &Case, resizer: &mut Resizer, sbytes: &[u8], dbytes: &mut Vec<u8>) -> Result<(), fir::ResizeError> {
    let opts = case.options();
    let (_, sw, sh, _) = shape_base(&case.sshape);
    let (_, dw, dh, _) = shape_base(&case.dshape);
    // 16-byte aligned copies; for multi-byte pixel types most buffers get a ragged tail of 1 .. size-1 spare
    // bytes (a byte buffer that is longer than needed by less than one pixel is a valid container)
    let psize = case.pt.size();
    let rag_s = if psize > 1 { (sw as usize * 7 + dh as usize * 3 + 1) % psize } else { 0 };
    let rag_d = if psize > 1 { (dw as usize * 5 + sh as usize + 2) % psize } else { 0 };
    let (slen, dlen) = (sbytes.len(), dbytes.len());
    let mut sal = vec![0u128; (slen + rag_s) / 16 + 1];
    let sslice: &mut [u8] = unsafe { std::slice::from_raw_parts_mut(sal.as_mut_ptr() as *mut u8, slen + rag_s) };
    sslice[..slen].copy_from_slice(sbytes);
    sslice[slen..].fill(0xEE);
    let mut dal = vec![0u128; (dlen + rag_d) / 16 + 1];
    let dslice: &mut [u8] = unsafe { std::slice::from_raw_parts_mut(dal.as_mut_ptr() as *mut u8, dlen + rag_d) };
    dslice[..dlen].copy_from_slice(dbytes);
    dslice[dlen..].fill(0xEE);
    if SRC_AS_MUT_VIEW.load(std::sync::atomic::Ordering::Relaxed) && shape_crops(&case.sshape).len() == 1 {
        let sc = shape_crops(&case.sshape);
        let dc = shape_crops(&case.dshape);
        let mut simg_m = Image::from_slice_u8(sw, sh, sslice, case.pt).unwrap();
        let r = {
            let s1 = CroppedImageMut::new(&mut simg_m, sc[0].0, sc[0].1, sc[0].2, sc[0].3).unwrap();
            let mut dimg = Image::from_slice_u8(dw, dh, dslice, case.pt).unwrap();
            if dc.is_empty() {
                resizer.resize(&s1, &mut dimg, &opts)
            } else {
                let mut d1 = CroppedImageMut::new(&mut dimg, dc[0].0, dc[0].1, dc[0].2, dc[0].3).unwrap();
                resizer.resize(&s1, &mut d1, &opts)
            }
        };
        assert!(dslice[dlen..].iter().all(|&b| b == 0xEE), "spare bytes behind the destination image were changed");
        dbytes.copy_from_slice(&dslice[..dlen]);
        return r;
    }
    // the source container rotates between a borrowed ImageRef, an owned Image built from a Vec, and a copy()
    // of a borrowed Image: the result must not depend on who owns the bytes (C13)
    let kind = (sw as usize + 2 * sh as usize + dw as usize) % 3;
    let owned: Option<Image<'static>> = match kind {
        1 => Image::from_vec_u8(sw, sh, sslice.to_vec(), case.pt).ok(),
        2 => Image::from_slice_u8(sw, sh, sslice, case.pt).ok().map(|i| i.copy()),
        _ => None,
    };
    let r = match &owned {
        Some(img) => dyn_tail(case, resizer, img, dw, dh, dslice, &opts),
        None => {
            let simg = ImageRef::new(sw, sh, sslice, case.pt).unwrap();
            dyn_tail(case, resizer, &simg, dw, dh, dslice, &opts)
        }
    };
    assert!(dslice[dlen..].iter().all(|&b| b == 0xEE), "spare bytes behind the destination image were changed");
    dbytes.copy_from_slice(&dslice[..dlen]);
    r
}

fn dyn_tail<S: fir::IntoImageView>(
    case: &Case,
    resizer: &mut Resizer,
    simg: &S,
    dw: u32,
    dh: u32,
    dslice: &mut [u8],
    opts: &ResizeOptions,
) -> Result<(), fir::ResizeError> {
    let mut dimg = Image::from_slice_u8(dw, dh, dslice, case.pt).unwrap();
    let sc = shape_crops(&case.sshape);
    let dc = shape_crops(&case.dshape);
    match (sc.len(), dc.len()) {
        (0, 0) => resizer.resize(simg, &mut dimg, opts),
        (_, 0) => {
            let s1 = CroppedImage::new(simg, sc[0].0, sc[0].1, sc[0].2, sc[0].3).unwrap();
            resizer.resize(&s1, &mut dimg, opts)
        }
        (0, _) => {
            let mut d1 = CroppedImageMut::new(&mut dimg, dc[0].0, dc[0].1, dc[0].2, dc[0].3).unwrap();
            resizer.resize(simg, &mut d1, opts)
        }
        (_, _) => {
            let s1 = CroppedImage::new(simg, sc[0].0, sc[0].1, sc[0].2, sc[0].3).unwrap();
            let mut d1 = CroppedImageMut::new(&mut dimg, dc[0].0, dc[0].1, dc[0].2, dc[0].3).unwrap();
            resizer.resize(&s1, &mut d1, opts)
        }
    }
}

pub fn dynamic_ok(case: &Case) -> bool {
    let (soff, ..) = shape_base(&case.sshape);
    let (doff, ..) = shape_base(&case.dshape);
    soff == 0 && doff == 0 && case.sshape.depth() <= 1 && case.dshape.depth() <= 1
}

/// run the case with the destination buffer pre-filled with `fill`; "ok:<hex>" | "err:<Kind>:<hex>" | "panic:.."
pub fn run_case_with(case: &Case, resizer: &mut Resizer, fill: u8) -> String {
    let kind = pt_kind(case.pt);
    let sbytes = comps_to_bytes(kind, &case.sbuf);
    let mut dbytes = vec![fill; case.dlen() * case.pt.size()];
    crate::util::note_current(&line_prefix(case));
    // only switch the back-end when it differs: a reused / cloned Resizer must keep the one it was given
    if resizer.cpu_extensions() != case.ext {
        unsafe { resizer.set_cpu_extensions(case.ext) };
    }
    if let Some(c) = case.custom {
        c.install();
    }
    let r = catch(|| {
        if case.dynamic {
            run_dynamic(case, resizer, &sbytes, &mut dbytes)
        } else {
            crate::with_pixel_type!(case.pt, P => run_typed::<P>(case, resizer, &sbytes, &mut dbytes))
        }
    });
    match r {
        Ok(Ok(())) => format!("ok:{}", bytes_hex(kind, &dbytes)),
        Ok(Err(fir::ResizeError::SrcCroppingError(e))) => format!("err:{:?}:{}", e, bytes_hex(kind, &dbytes)),
        Ok(Err(e)) => format!("err:{}:{}", format!("{:?}", e).replace([' ', ':'], ""), bytes_hex(kind, &dbytes)),
        Err(p) => format!("panic:{}", p.replace(' ', "_")),
    }
}

pub fn run_case(case: &Case, fill: u8) -> String {
    let mut r = Resizer::new();
    run_case_with(case, &mut r, fill)
}

pub fn line_prefix(case: &Case) -> String {
    format!(
        "resize pt={} ext={} entry={} sview={} dview={} alg={} crop={} alpha={} dlen={} sbuf={}",
        pt_name(case.pt),
        case.ext_name,
        if case.dynamic { "dyn" } else { "typed" },
        case.sshape.desc(),
        case.dshape.desc(),
        case.alg.name,
        case.crop.desc(),
        case.alpha as u8,
        case.dlen(),
        comps_hex(pt_kind(case.pt), &case.sbuf)
    )
}

/// random component values for a buffer
pub fn random_comps(rng: &mut Rng, pt: PixelType, npix: usize, mode: u64) -> Vec<u64> {
    let kind = pt_kind(pt);
    let n = npix * pt_comps(pt);
    let maxv = kind.max();
    (0..n)
        .map(|i| match kind {
            Kind::U8 | Kind::U16 => match mode {
                0 => rng.below(maxv + 1),
                1 => {
                    if rng.chance(1, 2) { 0 } else { maxv }
                }
                2 => {
                    // checkerboard of extremes
                    if (i / pt_comps(pt)) % 2 == 0 { maxv } else { 0 }
                }
                3 => maxv / 2 + rng.below(3),
                _ => {
                    if rng.chance(1, 10) { maxv - rng.below(3) } else { rng.below(maxv + 1) }
                }
            },
            Kind::I32 => match mode {
                1 => {
                    if rng.chance(1, 2) { i32::MIN as u32 as u64 } else { i32::MAX as u64 }
                }
                2 => {
                    if (i % 2) == 0 { i32::MAX as u64 } else { i32::MIN as u32 as u64 }
                }
                _ => (rng.next() as i32 >> rng.below(20)) as u32 as u64,
            },
            Kind::F32 => match mode {
                1 => (if rng.chance(1, 2) { 0.0f32 } else { 1.0 }).to_bits() as u64,
                2 => (if i % 2 == 0 { 1.0f32 } else { -1.0 }).to_bits() as u64,
                _ => ((rng.f64_unit() * 2.0 - 0.5) as f32).to_bits() as u64,
            },
        })
        .collect()
}

pub fn plain(w: u32, h: u32) -> Shape {
    Shape::T { off: 0, w, h, len: (w * h) as usize }
}
