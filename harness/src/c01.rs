//! C01 - whole resizes: all pixel types, filters, algorithms, crops; the model answers with its own
//! coefficient mirror (L1) and integer / float pipeline (L2).

use crate::rcase::*;
use crate::util::*;
use fast_image_resize::PixelType;

pub fn random_crop(rng: &mut Rng, sw: u32, sh: u32) -> CropSpec {
    let (fw, fh) = (sw as f64, sh as f64);
    match rng.below(8) {
        0 | 1 | 2 => CropSpec::None,
        3 => {
            // integer crop
            let l = rng.below(sw as u64) as u32;
            let t = rng.below(sh as u64) as u32;
            let w = rng.range(1, (sw - l) as u64) as u32;
            let h = rng.range(1, (sh - t) as u64) as u32;
            CropSpec::Box(l as f64, t as f64, w as f64, h as f64)
        }
        4 => {
            // fractional crop
            let l = rng.f64_unit() * fw * 0.7;
            let t = rng.f64_unit() * fh * 0.7;
            let w = (fw - l) * (0.2 + 0.8 * rng.f64_unit());
            let h = (fh - t) * (0.2 + 0.8 * rng.f64_unit());
            CropSpec::Box(l, t, w, h)
        }
        5 => {
            // flush against the right / bottom edge
            let w = 0.3 + rng.f64_unit() * (fw - 0.3).max(0.0);
            let h = 0.3 + rng.f64_unit() * (fh - 0.3).max(0.0);
            CropSpec::Box(fw - w, fh - h, w, h)
        }
        6 => {
            // sub-pixel box
            let l = rng.f64_unit() * (fw - 1.0).max(0.0);
            let t = rng.f64_unit() * (fh - 1.0).max(0.0);
            CropSpec::Box(l, t, 0.1 + 0.8 * rng.f64_unit(), 0.1 + 0.8 * rng.f64_unit())
        }
        _ => CropSpec::Fit(rng.f64_unit(), rng.f64_unit()),
    }
}

/// a destination size together with a crop box whose size is the destination size plus / minus a
/// fraction (or exactly equal) per dimension, with integer or fractional origin: exercises the
/// decisions "is this pass required" right at their boundary
pub fn near_size(rng: &mut Rng, sw: u32, sh: u32) -> (u32, u32, CropSpec) {
    let dim = |rng: &mut Rng, s: u32| -> (u32, f64, f64) {
        let d = rng.range(1, s.max(1) as u64) as u32;
        let size = match rng.below(4) {
            0 => d as f64,
            1 => (d as f64 + 0.05 + 0.9 * rng.f64_unit()).min(s as f64),
            2 => (d as f64 - 0.05 - 0.9 * rng.f64_unit()).max(0.1),
            _ => d as f64 + 1e-9,
        };
        let room = (s as f64 - size).max(0.0);
        let origin = match rng.below(3) {
            0 => (room * rng.f64_unit()).floor(),
            1 => room * rng.f64_unit(),
            _ => {
                // a hair beside a whole number (the "is the origin whole?" decision of the same-size copy shortcut)
                let n = (room * rng.f64_unit()).floor();
                let e = *rng.pick(&[1e-7, 3e-7, 9e-7, 1e-9, 1e-12]);
                if n >= 1.0 && rng.chance(2, 3) {
                    n - e
                } else {
                    (n + e).min(room)
                }
            }
        };
        let size = size.min(s as f64 - origin);
        (d, origin, size)
    };
    let (dw, l, w) = dim(rng, sw);
    let (dh, t, h) = dim(rng, sh);
    (dw, dh, CropSpec::Box(l, t, w, h))
}

pub fn random_size(rng: &mut Rng, max: u32) -> u32 {
    match rng.below(6) {
        0 => 1,
        1 => rng.range(1, 4) as u32,
        _ => rng.range(1, max as u64) as u32,
    }
}

pub fn generate(out: &mut Out, seed: u64, thorough: bool) {
    let mut rng = Rng::new(seed ^ 0xC01);
    let n = if thorough { 12000 } else { 2500 };
    let ex = exts();
    for i in 0..n {
        let pt = ALL_TYPES[i % 13];
        let max = if rng.chance(1, 12) { 160 } else { 40 };
        let (sw, sh) = (random_size(&mut rng, max), random_size(&mut rng, max));
        let (dw, dh) = (random_size(&mut rng, max), random_size(&mut rng, max));
        let (ext_name, ext) = ex[rng.below(ex.len() as u64) as usize];
        let alg = AlgSpec::random(&mut rng);
        let mut crop = random_crop(&mut rng, sw, sh);
        let (mut dw, mut dh) = (dw, dh);
        if i % 6 == 0 {
            let (a, b, c) = near_size(&mut rng, sw, sh);
            dw = a;
            dh = b;
            crop = c;
        }
        let mode = rng.below(5);
        let case = Case {
            pt,
            ext_name,
            ext,
            sshape: plain(sw, sh),
            dshape: plain(dw, dh),
            alg,
            crop,
            alpha: rng.chance(1, 2),
            sbuf: random_comps(&mut rng, pt, (sw * sh) as usize, mode),
            dynamic: rng.chance(1, 3),
            custom: None,
        };
        let got = run_case(&case, 0xA5);
        out.count(&format!("pt:{}", pt_name(pt)));
        out.count(&format!("ext:{}", ext_name));
        out.count(&format!("alg:{}", case.alg.name.split(':').next().unwrap()));
        out.count(&format!("outcome:{}", got.split(':').next().unwrap()));
        out.count(&format!("content-mode:{}", mode));
        let line = format!("{} fill=a5 got={} check=ideal", line_prefix(&case), got);
        let k = fnv(line.as_bytes());
        out.push(line, Some(k));
    }
    let _ = PixelType::U8;
}
