//! Generators for the properties that are judged on whole resizes (C05, C07, C09, C10, C11, C12, C13, C18).

use crate::c01::{near_size, random_crop, random_size};
use crate::rcase::*;
use crate::util::*;
use crate::views::*;
use fast_image_resize as fir;
use fir::{PixelType, Resizer};

fn pick_ext(rng: &mut Rng) -> (&'static str, fir::CpuExtensions) {
    let ex = exts();
    ex[rng.below(ex.len() as u64) as usize]
}

fn emit(out: &mut Out, case: &Case, fill: u8, got: &str, extra: &str, tag: &str) {
    out.count(&format!("pt:{}", pt_name(case.pt)));
    out.count(&format!("ext:{}", case.ext_name));
    out.count(&format!("alg:{}", case.alg.name.split(':').next().unwrap()));
    out.count(&format!("outcome:{}", got.split(':').next().unwrap()));
    out.count(&format!("kind:{}", tag));
    let line = format!("{} fill={:02x} got={}{}", line_prefix(case), fill, got, extra);
    let k = fnv(line.as_bytes());
    out.push(line, Some(k));
}

fn base_case(rng: &mut Rng, pt: PixelType, sw: u32, sh: u32, dw: u32, dh: u32) -> Case {
    let (ext_name, ext) = pick_ext(rng);
    let mode = rng.below(5);
    Case {
        pt,
        ext_name,
        ext,
        sshape: plain(sw, sh),
        dshape: plain(dw, dh),
        alg: AlgSpec::random(rng),
        crop: CropSpec::None,
        alpha: rng.chance(1, 2),
        sbuf: random_comps(rng, pt, (sw * sh) as usize, mode),
        dynamic: false,
        custom: None,
    }
}

// ------------------------------------------------------------------------------------------------ C12
pub fn gen_c12(out: &mut Out, seed: u64, thorough: bool) {
    let mut rng = Rng::new(seed ^ 0xC12);
    let n = if thorough { 8000 } else { 1600 };
    for i in 0..n {
        let pt = ALL_TYPES[i % 13];
        let (sw, sh) = (random_size(&mut rng, 24), random_size(&mut rng, 24));
        // integer crop whose size is the destination size
        let l = rng.below(sw as u64) as u32;
        let t = rng.below(sh as u64) as u32;
        let w = rng.range(1, (sw - l) as u64) as u32;
        let h = rng.range(1, (sh - t) as u64) as u32;
        let mut case = base_case(&mut rng, pt, sw, sh, w, h);
        case.crop = if l == 0 && t == 0 && w == sw && h == sh && rng.chance(1, 2) { CropSpec::None } else { CropSpec::Box(l as f64, t as f64, w as f64, h as f64) };
        case.dynamic = rng.chance(1, 3);
        // float types: zeros of both signs copied over a destination that already holds (positive) zeros -
        // an exact copy preserves the sign bit although -0.0 == 0.0
        let mut fill = 0xA5u8;
        if pt_kind(pt) == Kind::F32 && rng.chance(1, 2) {
            for v in case.sbuf.iter_mut() {
                *v = match rng.below(8) {
                    0 => 0x3f80_0000,
                    1 | 2 | 3 => 0x8000_0000,
                    _ => 0,
                };
            }
            // some rows entirely of signed zeros
            fill = 0x00;
            out.count("same-size:signed-zeros");
        }
        let got = run_case(&case, fill);
        emit(out, &case, fill, &got, " check=copy", "same-size");
        // only one dimension matches: no resampling along it (judged through the model, which computes no
        // coefficients for that dimension)
        if rng.chance(1, 3) {
            let mut c2 = case.clone();
            let nh = random_size(&mut rng, 24);
            c2.dshape = plain(w, nh);
            let got = run_case(&c2, 0xA5);
            emit(out, &c2, 0xA5, &got, "", "one-dimension");
        }
        // ... and judged on the implementation alone: the same resize of a source that holds only the crop box's
        // columns (width matches) or only its rows (height matches) must give the very same bytes - whatever lies
        // left / right of (above / below) the box takes no part, on every back-end, for every width of the SIMD tails
        if rng.chance(1, 3) {
            let n = pt_comps(pt);
            let vertical_only = rng.chance(1, 2);
            let mut c2 = case.clone();
            let mut c3 = case.clone();
            if vertical_only {
                let nh = random_size(&mut rng, 24);
                c2.dshape = plain(w, nh);
                c3.dshape = plain(w, nh);
                c3.sshape = plain(w, sh);
                c3.sbuf = (0..sh as usize)
                    .flat_map(|y| {
                        let a = (y * sw as usize + l as usize) * n;
                        case.sbuf[a..a + w as usize * n].to_vec()
                    })
                    .collect();
                c3.crop = CropSpec::Box(0.0, t as f64, w as f64, h as f64);
            } else {
                let nw = random_size(&mut rng, 24);
                c2.dshape = plain(nw, h);
                c3.dshape = plain(nw, h);
                c3.sshape = plain(sw, h);
                let a = t as usize * sw as usize * n;
                c3.sbuf = case.sbuf[a..a + h as usize * sw as usize * n].to_vec();
                c3.crop = CropSpec::Box(l as f64, 0.0, w as f64, h as f64);
            }
            c2.crop = CropSpec::Box(l as f64, t as f64, w as f64, h as f64);
            let got = run_case(&c2, 0xA5);
            let got_b = run_case(&c3, 0xA5);
            emit(out, &c2, 0xA5, &got, &format!(" check=same2 gotB={}", got_b), if vertical_only { "one-dimension:columns-of-the-box-only" } else { "one-dimension:rows-of-the-box-only" });
        }
    }
    // SuperSampling whose intermediate image has the destination size (multiplicity 1, integer
    // aspect-preserving scale): the result is the nearest-neighbour image itself
    for i in 0..(if thorough { 1500 } else { 400 }) {
        let pt = ALL_TYPES[i % 13];
        let k = rng.range(2, 5) as u32;
        let (dw, dh) = (rng.range(1, 12) as u32, rng.range(1, 12) as u32);
        let mut case = base_case(&mut rng, pt, dw * k, dh * k, dw, dh);
        case.alg = AlgSpec::ss(rng.below(7) as usize, 1);
        let got = run_case(&case, 0xA5);
        let mut cn = case.clone();
        cn.alg = AlgSpec::nearest();
        let got_n = run_case(&cn, 0xA5);
        emit(out, &case, 0xA5, &got, &format!(" check=same2 gotB={}", got_n), "ss-intermediate-same-size");
    }
}

// ------------------------------------------------------------------------------------------------ C01 (SuperSampling)
/// SuperSampling against the pipeline it documents: Nearest into an intermediate image of
/// round(crop_w / factor) x round(crop_h / factor), factor = min(crop_w / dst_w, crop_h / dst_h) / multiplicity (only when
/// factor > 1.2), then Convolution with the same filter.  Elongated crops of both orientations, both axes as the less
/// reduced one.  The two results must be identical (`check=same2`); the first is also compared with the model.
pub fn gen_ss_documented(out: &mut Out, rng: &mut Rng, count: usize) {
    let mut done = 0;
    let mut guard = 0;
    while done < count && guard < count * 20 {
        guard += 1;
        let pt = ALL_TYPES[guard % 13];
        let portrait = rng.chance(1, 2);
        let short = rng.range(20, 110) as u32;
        let long = (short as f64 * (1.3 + 2.7 * rng.f64_unit())) as u32;
        let (sw, sh) = if portrait { (short, long) } else { (long, short) };
        let m = rng.range(1, 3) as u8;
        // destination: reduce by 3 .. 12, the two axes by slightly different ratios
        let r = 3.0 + 9.0 * rng.f64_unit();
        let skew = 0.85 + 0.3 * rng.f64_unit();
        let dw = ((sw as f64 / r).round() as u32).max(1);
        let dh = ((sh as f64 / (r * skew)).round() as u32).max(1);
        let (cw, ch) = (sw as f64, sh as f64);
        let factor = (cw / dw as f64).min(ch / dh as f64) / m as f64;
        if !(factor > 1.2) {
            continue;
        }
        let tw = (cw / factor).round() as u32;
        let th = (ch / factor).round() as u32;
        if tw == 0 || th == 0 || (tw == dw && th == dh) {
            continue;
        }
        let fi = rng.below(7) as usize;
        let mut case = base_case(rng, pt, sw, sh, dw, dh);
        case.alg = AlgSpec::ss(fi, m);
        case.alpha = false;
        case.dynamic = false;
        let got = run_case(&case, 0xA5);
        // the documented pipeline through the public API
        let mut c1 = case.clone();
        c1.alg = AlgSpec::nearest();
        c1.dshape = plain(tw, th);
        let g1 = run_case(&c1, 0xA5);
        let got_b = match logical(&c1, &g1) {
            Some(tmp) => {
                let mut c2 = case.clone();
                c2.alg = AlgSpec::conv(fi);
                c2.sshape = plain(tw, th);
                c2.sbuf = tmp;
                run_case(&c2, 0xA5)
            }
            None => format!("nearest-step:{}", g1.chars().take(60).collect::<String>()),
        };
        out.count(&format!("ss-documented:{}:{}", if portrait { "portrait" } else { "landscape" }, if (cw / dw as f64) < (ch / dh as f64) { "width-less-reduced" } else { "height-less-reduced" }));
        emit(out, &case, 0xA5, &got, &format!(" check=same2 gotB={}", got_b), "ss-documented-pipeline");
        done += 1;
    }
}

// ------------------------------------------------------------------------------------------------ C11
pub fn gen_c11(out: &mut Out, seed: u64, thorough: bool) {
    let mut rng = Rng::new(seed ^ 0xC11);
    let n = if thorough { 12000 } else { 3000 };
    for i in 0..n {
        let pt = ALL_TYPES[i % 13];
        let (sw, sh, dw, dh) = match rng.below(8) {
            0 => (rng.range(1, 3000) as u32, 1, rng.range(1, 4) as u32, 1),
            1 => (1, rng.range(1, 3000) as u32, 1, rng.range(1, 4) as u32),
            2 => (rng.range(1, 4) as u32, rng.range(1, 4) as u32, rng.range(1, 200) as u32, rng.range(1, 60) as u32),
            _ => (random_size(&mut rng, 64), random_size(&mut rng, 64), random_size(&mut rng, 64), random_size(&mut rng, 64)),
        };
        // one case in six: destination within a fraction of (or exactly) the crop size, origin whole / fractional /
        // a hair beside a whole number
        let near = if rng.chance(1, 6) { Some(crate::c01::near_size(&mut rng, sw, sh)) } else { None };
        let (dw, dh) = match &near {
            Some((a, b, _)) => (*a, *b),
            None => (dw, dh),
        };
        let mut case = base_case(&mut rng, pt, sw, sh, dw, dh);
        case.alg = AlgSpec::nearest();
        let (fw, fh) = (sw as f64, sh as f64);
        case.crop = match if near.is_some() { 99 } else { rng.below(7) } {
            99 => near.unwrap().2,
            0 => {
                // sub-pixel box flush against the right / bottom edge, down to one ulp
                let e = *rng.pick(&[1e-3, 1e-9, 1e-13, 2.2e-16, 0.5]);
                let (w, h) = (fw * e, fh * e);
                CropSpec::Box(fw - w, fh - h, w, h)
            }
            1 => {
                let w = f64::from_bits(fw.to_bits() - 1);
                CropSpec::Box(fw - w, 0.0, w, fh)
            }
            2 => CropSpec::Box(f64::from_bits(fw.to_bits() - 1), f64::from_bits(fh.to_bits() - 1), fw - f64::from_bits(fw.to_bits() - 1), fh - f64::from_bits(fh.to_bits() - 1)),
            _ => random_crop(&mut rng, sw, sh),
        };
        case.dynamic = rng.chance(1, 3);
        // views: the generic row stepping of cropped views vs the specialised one of typed images
        if !case.dynamic && rng.chance(1, 3) {
            case.sshape = placements(sw, sh, rng.range(1, 4) as usize);
            let len = case.sshape.buf_len();
            case.sbuf = random_comps(&mut rng, pt, len, 0);
        }
        let got = run_case(&case, 0xA5);
        emit(out, &case, 0xA5, &got, " check=nearest", "nearest");
    }
}

// ------------------------------------------------------------------------------------------------ C05 / C13
fn placed_case(rng: &mut Rng, pt: PixelType, max: u32) -> Case {
    let (sw, sh) = (random_size(rng, max), random_size(rng, max));
    let (dw, dh) = (random_size(rng, max), random_size(rng, max));
    let mut case = base_case(rng, pt, sw, sh, dw, dh);
    case.crop = random_crop(rng, sw, sh);
    case.sshape = placements(sw, sh, rng.below(PLACEMENTS as u64) as usize);
    case.dshape = placements(dw, dh, rng.below(PLACEMENTS as u64) as usize);
    let len = case.sshape.buf_len();
    let mode = rng.below(5);
    case.sbuf = random_comps(rng, pt, len, mode);
    case.dynamic = false;
    case
}

pub fn gen_c05(out: &mut Out, seed: u64, thorough: bool) {
    let mut rng = Rng::new(seed ^ 0xC05);
    let n = if thorough { 10000 } else { 2200 };
    for i in 0..n {
        let pt = ALL_TYPES[i % 13];
        let mut case = placed_case(&mut rng, pt, 28);
        // one case in ten: a kernel narrower than the pixel pitch on an up-scale - some destination rows / columns get a
        // window of zero weights only (empty after trimming) and must still be assigned (the value 0)
        if i % 10 == 3 {
            let c = Custom::Wide(*rng.pick(&[0.3, 0.2, 0.45]));
            case.custom = Some(c);
            case.alg = AlgSpec::custom(c, rng.below(2) as u8, 1);
            let (sw, sh) = (case.sshape.width(), case.sshape.height());
            let (dw, dh) = (sw * rng.range(2, 3) as u32 + rng.below(2) as u32, sh * rng.range(2, 3) as u32 + rng.below(2) as u32);
            case.crop = if rng.chance(1, 2) { CropSpec::None } else { CropSpec::Box(0.0, 0.0, sw as f64, sh as f64) };
            // vertical-only / horizontal-only / both
            let (dw, dh) = match rng.below(3) { 0 => (sw, dh), 1 => (dw, sh), _ => (dw, dh) };
            case.dshape = placements(dw, dh, rng.below(PLACEMENTS as u64) as usize);
            out.count("narrow-custom-kernel");
        }
        if i % 5 == 0 {
            // SuperSampling with every multiplicity, aspect-preserving and not
            let k = rng.range(2, 6) as u32;
            let (dw, dh) = (rng.range(1, 9) as u32, rng.range(1, 9) as u32);
            let (sw, sh) = if rng.chance(1, 2) { (dw * k, dh * k) } else { (dw * k + rng.below(3) as u32, dh * (k + 1)) };
            case = base_case(&mut rng, pt, sw, sh, dw, dh);
            case.alg = AlgSpec::ss(rng.below(7) as usize, rng.range(1, 8) as u8);
            case.dshape = placements(dw, dh, rng.below(PLACEMENTS as u64) as usize);
        }
        if i % 11 == 0 {
            // erroring call / zero-sized destination: nothing may be written
            match rng.below(3) {
                0 => case.crop = CropSpec::Box(1.0, 0.0, shape_w(&case.sshape) as f64 + 1.0, 1.0),
                1 => case.crop = CropSpec::Box(-1.0, 0.0, 1.0, 1.0),
                _ => case.crop = CropSpec::Box(0.0, 0.0, 0.0, 1.0),
            }
        }
        if i % 7 == 3 {
            // crop size within a fraction of the destination size: a required pass must not be skipped
            let (sw, sh) = (random_size(&mut rng, 24), random_size(&mut rng, 24));
            let (dw, dh, crop) = near_size(&mut rng, sw, sh);
            case = base_case(&mut rng, pt, sw, sh, dw, dh);
            case.crop = crop;
            case.dshape = placements(dw, dh, rng.below(PLACEMENTS as u64) as usize);
        }
        if i % 13 == 7 {
            // Nearest with crop boxes within rounding distance of the right / bottom edge: every row and column must still be written
            let (sw, sh) = (random_size(&mut rng, 20), random_size(&mut rng, 20));
            let (dw, dh) = (random_size(&mut rng, 9), random_size(&mut rng, 9));
            case = base_case(&mut rng, pt, sw, sh, dw, dh);
            case.alg = AlgSpec::nearest();
            case.crop = flush_crop(&mut rng, sw, sh);
            case.dshape = placements(dw, dh, rng.below(PLACEMENTS as u64) as usize);
        }
        if i % 9 == 4 {
            // one pass only, written straight into the caller's view: an integer crop box strictly inside the source whose
            // height (or width) is the destination's - the source has rows below (columns right of) the box, the
            // destination view has parent rows below it; row loops that are bounded by the source instead of the view spill
            let (sw, sh) = (rng.range(6, 26) as u32, rng.range(6, 26) as u32);
            let l = rng.below(3) as u32;
            let t = rng.below(3) as u32;
            let w = rng.range(1, (sw - l - 1) as u64) as u32;
            let h = rng.range(1, (sh - t - 1) as u64) as u32;
            let horizontal_only = rng.chance(2, 3);
            let (dw, dh) = if horizontal_only { (random_size(&mut rng, 24), h) } else { (w, random_size(&mut rng, 24)) };
            case = base_case(&mut rng, pt, sw, sh, dw, dh);
            case.crop = CropSpec::Box(l as f64, t as f64, w as f64, h as f64);
            case.dshape = placements(dw, dh, 2 + rng.below(3) as usize);
            out.count(if horizontal_only { "one-pass:horizontal-only-into-cropped-view" } else { "one-pass:vertical-only-into-cropped-view" });
        }
        if i % 97 == 5 && pt_kind(pt) == Kind::U8 {
            // recorded finding F18: a custom kernel whose weights all vanish on a one-pixel-wide 8-bit source
            // (ring kernel) makes the intermediate image zero pixels wide; the second pass then writes nothing
            let c = Custom::Lobes(0.0, -1.0);
            case = base_case(&mut rng, pt, 1, 5, 3, 4);
            case.custom = Some(c);
            case.alg = AlgSpec::custom(c, 0, 1);
            case.alpha = false;
        }
        let sbefore = case.sbuf.clone();
        let got = run_case(&case, 0xA5);
        let got2 = run_case(&case, 0x5A);
        let rel = if case.sbuf == sbefore { "ok" } else { "source-changed" };
        emit(out, &case, 0xA5, &got, &format!(" fill2=5a got2={} check=writeset,rel rel={}", got2, rel), "write-set");
    }
}

/// crop boxes within one ulp of the right / bottom edge
pub fn flush_crop(rng: &mut Rng, sw: u32, sh: u32) -> CropSpec {
    let (fw, fh) = (sw as f64, sh as f64);
    let below = |v: f64| f64::from_bits(v.to_bits() - 1);
    match rng.below(4) {
        0 => {
            let e = *rng.pick(&[1e-9, 1e-13, 2.2e-16, 1e-17]);
            CropSpec::Box(fw - fw * e, fh - fh * e, fw * e, fh * e)
        }
        1 => CropSpec::Box(below(fw), below(fh), fw - below(fw), fh - below(fh)),
        2 => CropSpec::Box(below(fw), 0.0, fw - below(fw), fh),
        _ => CropSpec::Box(0.0, below(fh), fw, fh - below(fh)),
    }
}

fn shape_w(s: &Shape) -> u32 {
    s.width()
}

/// logical destination pixels of a "ok:<hex>" result through a shape
fn logical(case: &Case, got: &str) -> Option<Vec<u64>> {
    let hex = got.strip_prefix("ok:")?;
    let kind = pt_kind(case.pt);
    let w = kind.bytes() * 2;
    let comps: Vec<u64> = (0..hex.len() / w).map(|i| u64::from_str_radix(&hex[i * w..(i + 1) * w], 16).unwrap()).collect();
    let n = pt_comps(case.pt);
    let mut out = Vec::new();
    for idx in shape_indices(&case.dshape) {
        out.extend_from_slice(&comps[idx * n..(idx + 1) * n]);
    }
    Some(out)
}

/// buffer pixel indices of a shape, row-major (mirror of the model's `rows`, used only to compare two
/// implementation runs with each other)
pub fn shape_indices(s: &Shape) -> Vec<usize> {
    fn rows(s: &Shape) -> Vec<Vec<usize>> {
        match s {
            Shape::T { off, w, h, .. } => (0..*h as usize).map(|r| (0..*w as usize).map(|c| off + r * *w as usize + c).collect()).collect(),
            Shape::C { inner, l, t, w, h } => rows(inner)
                .into_iter()
                .skip(*t as usize)
                .take(*h as usize)
                .map(|r| r.into_iter().skip(*l as usize).take(*w as usize).collect())
                .collect(),
        }
    }
    rows(s).into_iter().flatten().collect()
}

pub fn gen_c13(out: &mut Out, seed: u64, thorough: bool) {
    let mut rng = Rng::new(seed ^ 0xC13);
    let n = if thorough { 6000 } else { 1500 };
    for i in 0..n {
        let pt = ALL_TYPES[i % 13];
        let (sw, sh) = (random_size(&mut rng, 26), random_size(&mut rng, 26));
        let (dw, dh) = (random_size(&mut rng, 26), random_size(&mut rng, 26));
        let mut a = base_case(&mut rng, pt, sw, sh, dw, dh);
        a.crop = random_crop(&mut rng, sw, sh);
        let got_a = run_case(&a, 0xA5);
        let la = logical(&a, &got_a);
        // the same logical operation through other containers / entry points
        let logical_src: Vec<u64> = a.sbuf.clone();
        for _ in 0..3 {
            let mut b = a.clone();
            b.dynamic = rng.chance(1, 3);
            let sv = if b.dynamic { *rng.pick(&[0usize, 2]) } else { rng.below(PLACEMENTS as u64) as usize };
            let dv = if b.dynamic { *rng.pick(&[0usize, 2]) } else { rng.below(PLACEMENTS as u64) as usize };
            b.sshape = placements(sw, sh, sv);
            b.dshape = placements(dw, dh, dv);
            // parent buffer filled with poison values, logical pixels copied in
            let n = pt_comps(pt);
            let mut sbuf = random_comps(&mut rng, pt, b.sshape.buf_len(), 1);
            for (p, idx) in shape_indices(&b.sshape).into_iter().enumerate() {
                sbuf[idx * n..(idx + 1) * n].copy_from_slice(&logical_src[p * n..(p + 1) * n]);
            }
            b.sbuf = sbuf;
            // dynamic entry with a cropped source: half of the time the source is a CroppedImageMut read through its read-only view
            let src_mut = b.dynamic && sv == 2 && rng.chance(1, 2);
            SRC_AS_MUT_VIEW.store(src_mut, std::sync::atomic::Ordering::Relaxed);
            let got_b = run_case(&b, 0x3C);
            SRC_AS_MUT_VIEW.store(false, std::sync::atomic::Ordering::Relaxed);
            if src_mut {
                out.count("source-as-CroppedImageMut");
            }
            let lb = logical(&b, &got_b);
            let rel = if la.is_some() && la == lb {
                "ok"
            } else if la.is_none() && got_a.split(':').take(2).collect::<Vec<_>>() == got_b.split(':').take(2).collect::<Vec<_>>() {
                "ok"
            } else {
                "differs-from-plain-typed-image"
            };
            out.count(&format!("placement:{}:{}:{}", sv, dv, if b.dynamic { "dyn" } else { "typed" }));
            emit(out, &b, 0x3C, &got_b, &format!(" check=rel rel={}", rel), "layout");
        }
        emit(out, &a, 0xA5, &got_a, "", "layout-reference");
    }
}

// ------------------------------------------------------------------------------------------------ C09
pub fn gen_c09(out: &mut Out, seed: u64, thorough: bool) {
    let mut rng = Rng::new(seed ^ 0xC09);
    let nseq = if thorough { 1500 } else { 350 };
    for s in 0..nseq {
        let mut resizer = Resizer::new();
        let len = rng.range(2, 12);
        // three sequences out of four keep one back-end throughout (chosen once, often not the best one), so
        // that what `clone` / `reset` do to the selected back-end is visible in the following calls
        let seq_ext = if rng.chance(3, 4) { Some(*rng.pick(&crate::util::exts())) } else { None };
        let mut after_clone = false;
        for step in 0..len {
            match rng.below(12) {
                0 => {
                    resizer.reset_internal_buffers();
                    out.count("op:reset");
                    continue;
                }
                1 | 2 if step > 0 => {
                    resizer = resizer.clone();
                    out.count("op:clone");
                    after_clone = true;
                    continue;
                }
                _ => {}
            }
            // right after a clone: a 16-bit alpha image large enough for the one-unit difference between the
            // portable and the SIMD alpha division to show if the clone lost the selected back-end
            let big_alpha = after_clone && rng.chance(2, 3);
            after_clone = false;
            let pt = if big_alpha { *rng.pick(&[PixelType::U16x4, PixelType::U16x2]) } else { *rng.pick(&ALL_TYPES) };
            // larger-then-smaller and the reverse: sizes swing between tiny and large
            let max = if rng.chance(1, 2) { 6 } else { 40 };
            let (sw, sh) = if big_alpha { (32, 32) } else { (random_size(&mut rng, max), random_size(&mut rng, max)) };
            let (dw, dh) = if big_alpha { (48, 40) } else { (random_size(&mut rng, max), random_size(&mut rng, max)) };
            let mut case = base_case(&mut rng, pt, sw, sh, dw, dh);
            if let Some((name, e)) = seq_ext {
                case.ext_name = name;
                case.ext = e;
            }
            if big_alpha {
                case.alpha = true;
                case.alg = AlgSpec::conv(1);
                case.sbuf = random_comps(&mut rng, pt, (sw * sh) as usize, 0);
            }
            case.crop = random_crop(&mut rng, sw, sh);
            if rng.chance(1, 10) {
                case.crop = CropSpec::Box(0.0, 0.0, sw as f64 + 1.0, 1.0); // erroring call
            }
            let got = run_case_with(&case, &mut resizer, 0xA5);
            let fresh = run_case(&case, 0xA5);
            out.count("op:resize");
            emit(out, &case, 0xA5, &got, &format!(" check=same2 gotB={} seq={} step={}", fresh, s, step), "reused-resizer");
        }
    }
}

// ------------------------------------------------------------------------------------------------ C10
pub fn gen_c10(out: &mut Out, seed: u64, thorough: bool) {
    let mut rng = Rng::new(seed ^ 0xC10);
    // beyond "several thousand" taps the quantised coefficients of a window need not sum to 2^p closely
    // enough: the two geometries below are the recorded finding F17 (replayed on every run)
    for &(sw, fi) in &[(13678u32, 0usize), (19286, 0)] {
        let mut case = base_case(&mut rng, PixelType::U8, sw, 1, 1, 1);
        case.ext_name = "none";
        case.ext = fir::CpuExtensions::None;
        case.alg = AlgSpec::conv(fi);
        case.crop = CropSpec::None;
        case.alpha = false;
        case.sbuf = vec![255; sw as usize];
        let got = run_case(&case, 0xA5);
        emit(out, &case, 0xA5, &got, " check=uniform", "uniform-extreme");
    }
    // structured sweep: every pixel type x back-end x single pass (horizontal only / vertical only) x window
    // lengths 3 .. 35 (every residue of the kernel length mod 16) x row / column counts 1, 3, 5, 6 (every
    // residue mod 4: four-row blocks and leftover rows) x a value in the upper half of the range and the maximum
    for (ti, &pt) in ALL_TYPES.iter().enumerate() {
        let kind = pt_kind(pt);
        let ncomp = pt_comps(pt);
        for (ext_name, ext) in crate::util::exts() {
            for s in 1..=17u32 {
                for horizontal in [true, false] {
                    let other = [1u32, 3, 5, 6][((s + ti as u32) % 4) as usize];
                    let (sw, sh, dw, dh) = if horizontal { (3 * s, other, 3, other) } else { (other, 3 * s, other, 3) };
                    let mut case = base_case(&mut rng, pt, sw, sh, dw, dh);
                    case.ext_name = ext_name;
                    case.ext = ext;
                    case.alg = AlgSpec::conv(1 + (s as usize % 2) * 2); // Bilinear / CatmullRom
                    case.crop = CropSpec::None;
                    case.alpha = false;
                    let hi = s % 2 == 0;
                    let px: Vec<u64> = (0..ncomp)
                        .map(|c| match kind {
                            Kind::U8 => if hi { 255 } else { 129 + c as u64 },
                            Kind::U16 => if hi { 65535 } else { 32769 + 257 * c as u64 },
                            Kind::I32 => if hi { 0x7fff_ffff } else { 0xc000_0001 },
                            Kind::F32 => if hi { 1.0f32.to_bits() as u64 } else { 0.7f32.to_bits() as u64 },
                        })
                        .collect();
                    case.sbuf = (0..(sw * sh) as usize).flat_map(|_| px.clone()).collect();
                    let got = run_case(&case, 0xA5);
                    out.count("uniform-sweep");
                    emit(out, &case, 0xA5, &got, " check=uniform", "uniform-sweep");
                }
            }
        }
    }
    let n = if thorough { 16000 } else { 3500 };
    for i in 0..n {
        let pt = ALL_TYPES[i % 13];
        let kind = pt_kind(pt);
        let (sw, sh, dw, dh) = match rng.below(10) {
            0 => (rng.range(500, 4000) as u32, rng.range(1, 3) as u32, rng.range(1, 5) as u32, rng.range(1, 3) as u32), // extreme down-scale
            1 => (rng.range(1, 3) as u32, rng.range(500, 3000) as u32, rng.range(1, 3) as u32, rng.range(1, 4) as u32),
            2 => (rng.range(1, 4) as u32, rng.range(1, 4) as u32, rng.range(100, 700) as u32, rng.range(1, 6) as u32), // extreme up-scale
            _ => (random_size(&mut rng, 48), random_size(&mut rng, 48), random_size(&mut rng, 48), random_size(&mut rng, 48)),
        };
        let mut case = base_case(&mut rng, pt, sw, sh, dw, dh);
        case.crop = random_crop(&mut rng, sw, sh);
        let ncomp = pt_comps(pt);
        // one value per channel; alpha (if handled) at its maximum
        let px: Vec<u64> = (0..ncomp)
            .map(|_| match kind {
                Kind::U8 => {
                    if i < 13 * 256 { (i / 13) as u64 % 256 } else { rng.below(256) }
                }
                Kind::U16 => *rng.pick(&[0u64, 1, 32767, 32768, 65534, 65535, 12345, 255, 256]),
                Kind::I32 => *rng.pick(&[0u64, 1, 0x7fff_ffff, 0x8000_0000, 0xffff_ffff, 0x4000_0000, 0x0012_3456, 0xc000_0001]),
                Kind::F32 => rng.pick(&[0.0f32, 1.0, 0.5, 0.1, 255.0, -3.25, 1e-20, 1e20, 0.333_333_34]).to_bits() as u64,
            })
            .collect();
        let mut px = px;
        let has_alpha = (ncomp == 2 || ncomp == 4) && kind != Kind::I32;
        case.alpha = rng.chance(1, 2);
        if has_alpha && case.alpha {
            px[ncomp - 1] = match kind {
                Kind::F32 => 1.0f32.to_bits() as u64,
                k => k.max(),
            };
        }
        case.sbuf = (0..(sw * sh) as usize).flat_map(|_| px.clone()).collect();
        let got = run_case(&case, 0xA5);
        emit(out, &case, 0xA5, &got, " check=uniform", "uniform");
    }
}

// ------------------------------------------------------------------------------------------------ C18
pub fn gen_c18(out: &mut Out, seed: u64, thorough: bool) {
    let mut rng = Rng::new(seed ^ 0xC18);
    let n = if thorough { 10000 } else { 2400 };
    let nonneg = [0usize, 1, 2, 5]; // box, bilinear, hamming, gaussian
    for i in 0..n {
        let pt = ALL_TYPES[i % 13];
        let kind = pt_kind(pt);
        let (sw, sh) = (random_size(&mut rng, 40), random_size(&mut rng, 40));
        let (dw, dh) = (random_size(&mut rng, 40), random_size(&mut rng, 40));
        let mut case = base_case(&mut rng, pt, sw, sh, dw, dh);
        case.alpha = false;
        case.crop = random_crop(&mut rng, sw, sh);
        let fi = *rng.pick(&nonneg);
        case.alg = match rng.below(4) {
            0 => AlgSpec::interp(fi),
            1 => AlgSpec::ss(fi, rng.range(1, 4) as u8),
            _ => AlgSpec::conv(fi),
        };
        // value range anywhere inside the component range, incl. touching 0 / max and negative I32
        let npx = (sw * sh) as usize * pt_comps(pt);
        let (lo, hi): (i64, i64) = match kind {
            Kind::U8 => {
                let a = rng.below(256) as i64;
                let b = rng.below(256) as i64;
                (a.min(b), a.max(b))
            }
            Kind::U16 => {
                let a = *rng.pick(&[0i64, 1, 300, 40000, 65535, 65000]);
                let b = rng.below(65536) as i64;
                (a.min(b), a.max(b))
            }
            Kind::I32 => {
                let a = *rng.pick(&[i32::MIN as i64, -5, 0, 7, i32::MAX as i64, 1 << 30]);
                let b = rng.next() as i32 as i64;
                (a.min(b), a.max(b))
            }
            Kind::F32 => (0, 1000),
        };
        let val = |rng: &mut Rng| -> u64 {
            match kind {
                Kind::F32 => ((lo as f64 + rng.f64_unit() * (hi - lo) as f64) as f32 * 0.001 - 0.25).to_bits() as u64,
                Kind::I32 => ((lo + (rng.next() % ((hi - lo + 1) as u64)) as i64) as i32) as u32 as u64,
                _ => (lo + rng.below((hi - lo + 1) as u64) as i64) as u64,
            }
        };
        // two-level images with large flat areas (an overshoot by one unit above a flat maximum is visible) and long kernels
        let two_level = i % 5 == 2 && kind != Kind::F32;
        if two_level {
            let (bw, bh) = if rng.chance(1, 2) { (rng.range(200, 600) as u32, rng.range(1, 7) as u32) } else { (rng.range(1, 7) as u32, rng.range(200, 600) as u32) };
            let (ow, oh) = (rng.range(1, 33).min(bw as u64) as u32, rng.range(1, 7).min(bh as u64) as u32);
            case.sshape = plain(bw, bh);
            case.dshape = plain(ow, oh);
            case.crop = CropSpec::None;
        }
        let (sw, sh) = (case.sshape.width(), case.sshape.height());
        let npx = (sw * sh) as usize * pt_comps(pt);
        let a: Vec<u64> = if two_level {
            let (l, h) = if kind == Kind::I32 { (lo as i32 as u32 as u64, hi as i32 as u32 as u64) } else { (lo as u64, hi as u64) };
            let period = rng.range(3, 90) as usize;
            (0..npx).map(|j| if (j / pt_comps(pt) / period) % 2 == 0 { h } else { l }).collect()
        } else { (0..npx).map(|_| match rng.below(6) { 0 => if kind == Kind::F32 { val(&mut rng) } else if kind == Kind::I32 { lo as i32 as u32 as u64 } else { lo as u64 }, 1 => if kind == Kind::F32 { val(&mut rng) } else if kind == Kind::I32 { hi as i32 as u32 as u64 } else { hi as u64 }, _ => val(&mut rng) }).collect() };
        case.sbuf = a.clone();
        let got_a = run_case(&case, 0xA5);
        // a component-wise larger image
        let b: Vec<u64> = a
            .iter()
            .map(|&v| match kind {
                Kind::U8 | Kind::U16 => {
                    if rng.chance(1, 2) { v } else { (v + rng.below(kind.max() - v + 1)).min(kind.max()) }
                }
                Kind::I32 => {
                    let x = v as u32 as i32 as i64;
                    if rng.chance(1, 2) { v } else { ((x + (rng.next() % ((i32::MAX as i64 - x + 1) as u64)) as i64) as i32) as u32 as u64 }
                }
                Kind::F32 => {
                    let x = f32::from_bits(v as u32);
                    if rng.chance(1, 2) { v } else { (x + (rng.f64_unit() as f32) * 0.5).to_bits() as u64 }
                }
            })
            .collect();
        let mut cb = case.clone();
        cb.sbuf = b;
        let got_b = run_case(&cb, 0xA5);
        emit(out, &case, 0xA5, &got_a, &format!(" check=range,mono gotB={}", got_b), "order-and-range");
    }
}

// ------------------------------------------------------------------------------------------------ C07
pub fn gen_c07(out: &mut Out, seed: u64, thorough: bool) {
    let mut rng = Rng::new(seed ^ 0xC07);
    let n = if thorough { 9000 } else { 2000 };
    for i in 0..n {
        let pt = ALPHA_TYPES[i % 6];
        let kind = pt_kind(pt);
        let nc = pt_comps(pt);
        let (sw, sh) = (random_size(&mut rng, 32), random_size(&mut rng, 32));
        let (dw, dh) = (random_size(&mut rng, 32), random_size(&mut rng, 32));
        let mut case = base_case(&mut rng, pt, sw, sh, dw, dh);
        case.alpha = true;
        case.crop = random_crop(&mut rng, sw, sh);
        let fi = rng.below(7) as usize;
        case.alg = match rng.below(4) {
            0 => AlgSpec::interp(fi),
            1 => AlgSpec::ss(fi, rng.range(1, 4) as u8),
            _ => AlgSpec::conv(fi),
        };
        let maxv = match kind { Kind::F32 => 1.0f32.to_bits() as u64, k => k.max() };
        let opaque = i % 4 == 0;
        // transparent regions of random shape, incl. single pixels and whole rows
        let mut a = random_comps(&mut rng, pt, (sw * sh) as usize, 0);
        let row_t = rng.below(sh as u64) as usize;
        for p in 0..(sw * sh) as usize {
            let y = p / sw as usize;
            let transparent = !opaque && (rng.chance(1, 4) || (y == row_t && rng.chance(1, 2)) || (p % 7 == 3 && rng.chance(1, 2)));
            if opaque {
                a[p * nc + nc - 1] = maxv;
            } else if transparent {
                a[p * nc + nc - 1] = 0;
            } else if kind == Kind::F32 {
                a[p * nc + nc - 1] = ((0.05 + 0.95 * rng.f64_unit()) as f32).to_bits() as u64;
            }
            if kind == Kind::F32 {
                for c in 0..nc - 1 {
                    a[p * nc + c] = (rng.f64_unit() as f32).to_bits() as u64;
                }
            }
        }
        case.sbuf = a.clone();
        let got = run_case(&case, 0xA5);
        if opaque {
            // fully opaque: alpha handling on == off
            let mut off = case.clone();
            off.alpha = false;
            let got_off = run_case(&off, 0xA5);
            emit(out, &case, 0xA5, &got, &format!(" check=conv:same2,conv:alphazero gotB={}", got_off), "opaque");
        } else {
            // other colours under alpha = 0
            let mut b = a.clone();
            for p in 0..(sw * sh) as usize {
                let al = b[p * nc + nc - 1];
                let zero = if kind == Kind::F32 { f32::from_bits(al as u32) == 0.0 } else { al == 0 };
                if zero {
                    for c in 0..nc - 1 {
                        b[p * nc + c] = match kind { Kind::F32 => ((rng.f64_unit() * 4.0 - 1.0) as f32).to_bits() as u64, k => rng.below(k.max() + 1) };
                    }
                }
            }
            let mut cb = case.clone();
            cb.sbuf = b;
            let got_b = run_case(&cb, 0xA5);
            emit(out, &case, 0xA5, &got, &format!(" check=conv:same2,conv:alphazero gotB={}", got_b), "hidden-colour");
        }
    }
}
