//! C17 - change_type_of_pixel_components: complete ramps for integer sources, dense + boundary
//! samples for I32 / F32, every (source, destination) pair, round trips through wider types.

use crate::util::*;
use fast_image_resize as fir;
use fir::images::Image;
use fir::PixelType;

fn values_for(kind: Kind, rng: &mut Rng, thorough: bool) -> Vec<u64> {
    match kind {
        Kind::U8 => (0..256u64).collect(),
        Kind::U16 => (0..65536u64).collect(),
        Kind::I32 => {
            let mut v: Vec<i64> = vec![
                i32::MIN as i64, i32::MIN as i64 + 1, -(1 << 23), -(1 << 22), -(1 << 15), -2, -1, 0, 1, 2,
                (1 << 14) - 1, 1 << 14, (1 << 14) + 1, (1 << 15) - 1, 1 << 15, (1 << 22) - 1, 1 << 22, (1 << 22) + 1,
                (1 << 23) - 1, 1 << 23, (1 << 23) + 1, 0x7F80_0000, 0x7FFF_8000, i32::MAX as i64 - (1 << 22),
                i32::MAX as i64 - (1 << 22) + 1, i32::MAX as i64 - (1 << 14), i32::MAX as i64 - 1, i32::MAX as i64,
            ];
            // every u8 / u16 step boundary neighbourhood (rounding points of the shifts)
            for k in 0..256i64 {
                for d in [-1i64, 0, 1] {
                    v.push(((k << 23) + (1 << 22) + d).clamp(i32::MIN as i64, i32::MAX as i64));
                }
            }
            let n = if thorough { 1 << 20 } else { 1 << 15 };
            for _ in 0..n {
                v.push(rng.next() as i32 as i64);
            }
            v.into_iter().map(|x| (x as i32) as u32 as u64).collect()
        }
        Kind::F32 => {
            let mut v: Vec<f32> = vec![
                0.0, -0.0, 1.0, -1.0, 0.5, -0.5, f32::MIN_POSITIVE, 1e-45, -1e-45, 0.999_999_94, 1.000_000_1,
                -0.999_999_94, -1.000_000_1, 2.0, -2.0, 1e10, -1e10, 3.4e38, -3.4e38, f32::INFINITY,
                f32::NEG_INFINITY, f32::NAN,
            ];
            // rounding points k/255 +- ulp, (k+0.5)/255 +- ulp, same for 65535
            for m in [255.0f32, 65535.0] {
                let steps = if m == 255.0 { 256 } else { 4096 };
                for i in 0..steps {
                    let k = if m == 255.0 { i as f32 } else { (rng.below(65536)) as f32 };
                    for half in [0.0f32, 0.5] {
                        let x = (k + half) / m;
                        v.push(x);
                        v.push(f32::from_bits(x.to_bits().wrapping_add(1)));
                        v.push(f32::from_bits(x.to_bits().wrapping_sub(1)));
                    }
                }
            }
            let n = if thorough { 1 << 20 } else { 1 << 15 };
            for _ in 0..n {
                v.push((rng.f64_unit() * 3.0 - 1.5) as f32);
            }
            for _ in 0..2048 {
                // arbitrary finite bit patterns
                let b = rng.next() as u32;
                if f32::from_bits(b).is_finite() {
                    v.push(f32::from_bits(b));
                }
            }
            v.into_iter().map(|x| x.to_bits() as u64).collect()
        }
    }
}

fn convert(src_pt: PixelType, dst_pt: PixelType, w: u32, h: u32, dw: u32, dh: u32, comps: &[u64]) -> Result<Result<Vec<u64>, String>, String> {
    let src = image_from_comps(w, h, src_pt, comps);
    catch(move || {
        let mut dst = Image::new(dw, dh, dst_pt);
        dst.buffer_mut().iter_mut().for_each(|b| *b = 0xA5);
        fir::change_type_of_pixel_components(&src, &mut dst)
            .map(|_| image_comps(&dst))
            .map_err(|e| format!("{:?}", e))
    })
}

pub fn generate(out: &mut Out, seed: u64, thorough: bool) {
    let mut rng = Rng::new(seed ^ 0xC17);
    for &s in ALL_TYPES.iter() {
        for &d in ALL_TYPES.iter() {
            let (ks, kd) = (pt_kind(s), pt_kind(d));
            let n = pt_comps(s);
            // rejected pairs
            let probe = convert(s, d, 2, 2, 2, 2, &vec![0; 4 * n]);
            let supported = matches!(probe, Ok(Ok(_)));
            if !supported {
                let got = match probe {
                    Ok(Err(e)) => e.replace(' ', ""),
                    Ok(Ok(_)) => "ok".into(),
                    Err(p) => format!("panic:{}", p.replace(' ', "_")),
                };
                out.count(&format!("reject:{}", got));
                out.push(format!("convert-reject src={} dst={} kind=pair got={}", pt_name(s), pt_name(d), got),
                         Some(fnv(format!("rej{}{}", pt_name(s), pt_name(d)).as_bytes())));
                continue;
            }
            out.push(format!("convert-reject src={} dst={} kind=pair got=ok", pt_name(s), pt_name(d)), None);
            // different dimensions are rejected
            let got = match convert(s, d, 2, 2, 2, 3, &vec![0; 4 * n]) {
                Ok(Err(e)) => e.replace(' ', ""),
                Ok(Ok(_)) => "ok".into(),
                Err(p) => format!("panic:{}", p.replace(' ', "_")),
            };
            out.push(format!("convert-reject src={} dst={} kind=dims got={}", pt_name(s), pt_name(d), got),
                     Some(fnv(format!("dims{}{}", pt_name(s), pt_name(d)).as_bytes())));
            // complete ramp / samples, cut to whole pixels, arranged in rows of an odd width
            let mut vals = values_for(ks, &mut rng, thorough);
            while vals.len() % n != 0 {
                let first = vals[0];
                vals.push(first);
            }
            let pixels = vals.len() / n;
            let w = *rng.pick(&[1u32, 3, 7, 16, 64]);
            let h = (pixels as u32) / w;
            let used = (w * h) as usize * n;
            let mut all = Vec::new();
            let mut chunks = vec![(w, h, vals[..used].to_vec())];
            if used < vals.len() {
                let rest = vals[used..].to_vec();
                chunks.push(((rest.len() / n) as u32, 1, rest));
            }
            let mut gots = Vec::new();
            let mut status = String::new();
            for (cw, ch, comps) in chunks {
                match convert(s, d, cw, ch, cw, ch, &comps) {
                    Ok(Ok(g)) => {
                        all.extend_from_slice(&comps);
                        gots.extend_from_slice(&g);
                    }
                    Ok(Err(e)) => status = format!("err:{}", e.replace(' ', "")),
                    Err(p) => status = format!("panic:{}", p.replace(' ', "_")),
                }
            }
            out.count(&format!("pair:{}->{}", pt_name(s), pt_name(d)));
            out.count_n("components", all.len() as u64);
            let got = if status.is_empty() { comps_hex(kd, &gots) } else { status };
            let line = format!("convert src={} dst={} in={} got={}", pt_name(s), pt_name(d), comps_hex(ks, &all), got);
            let key = fnv(format!("{}{}{}", pt_name(s), pt_name(d), all.len()).as_bytes());
            out.push(line, Some(key));
            // round trip through a wider component type
            let wider = matches!((ks, kd), (Kind::U8, Kind::U16) | (Kind::U8, Kind::I32) | (Kind::U8, Kind::F32) | (Kind::U16, Kind::I32) | (Kind::U16, Kind::F32));
            if wider {
                let ww = (all.len() / n) as u32;
                if let Ok(Ok(mid)) = convert(s, d, ww, 1, ww, 1, &all) {
                    if let Ok(Ok(back)) = convert(d, s, ww, 1, ww, 1, &mid) {
                        out.count(&format!("roundtrip:{}->{}", pt_name(s), pt_name(d)));
                        out.push(format!("convert-rt a={} b={} in={} got={}", pt_name(s), pt_name(d), comps_hex(ks, &all), comps_hex(ks, &back)),
                                 Some(fnv(format!("rt{}{}", pt_name(s), pt_name(d)).as_bytes())));
                    }
                }
            }
        }
    }
}
