#!/usr/bin/env python3
"""Regenerates seeded/INDEX.md from seeded/*/meta.json."""
import json, os
ROOT = os.path.dirname(os.path.dirname(os.path.abspath(__file__)))
rows = []
for d in sorted(os.listdir(os.path.join(ROOT, 'seeded'))):
    m = os.path.join(ROOT, 'seeded', d, 'meta.json')
    if os.path.exists(m):
        j = json.load(open(m))
        res = '; '.join('%s: %s' % (k, v) for k, v in sorted(j.get('check_results', {}).items()))
        rows.append('| %s | %s | %s | %s | %s |' % (d, ', '.join(j.get('breaks', [])), j.get('summary', '').replace('|', '/'),
                                                 j.get('needs', '').replace('|', '/'), res))
open(os.path.join(ROOT, 'seeded', 'INDEX.md'), 'w').write(
    '# Seeded changes and the checks that catch them\n\n'
    'Each directory holds `patch.diff` (apply with `git -C /repo apply`), a demonstration and `meta.json`.\n'
    '`caught` = the quick check exits 1 with a VIOLATION line; `(input)` = with a concrete failing input as replay, '
    '`(no-input)` = a proof obligation / the correspondence broke and no failing input was found.\n\n'
    '| seeded change | breaks | what it does | needs to manifest | quick-check results |\n|---|---|---|---|---|\n' + '\n'.join(rows) + '\n')
print('seeded/INDEX.md: %d entries' % len(rows))
