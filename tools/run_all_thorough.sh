#!/bin/sh
# Run every claimed check in the thorough tier on the current tree (hours); logs in work/.
cd "$(dirname "$0")/.."
for id in $(python3 -c "import json;print(' '.join(c['property_id'] for c in json.load(open('MANIFEST.json'))['checks']))"); do
  s=$(date +%s)
  ./check $id --tier thorough > work/thorough_$id.log 2>&1; echo "$id rc=$? $(( $(date +%s) - s ))s $(tail -1 work/thorough_$id.log | cut -c1-150)"
done
