#!/usr/bin/env python3
"""Runs every seeded change against the quick checks of the properties it breaks (meta.json: breaks) and
records the outcome in meta.json (check_results). /repo is restored after every change."""
import json, os, subprocess, sys
ROOT = os.path.dirname(os.path.dirname(os.path.abspath(__file__)))
only = sys.argv[1:]
for d in sorted(os.listdir(os.path.join(ROOT, 'seeded'))):
    mp = os.path.join(ROOT, 'seeded', d, 'meta.json')
    if not os.path.exists(mp) or (only and d not in only):
        continue
    meta = json.load(open(mp))
    res = os.path.join('/tmp', 'seedres_%s.json' % d)
    env = dict(os.environ, SEED_RESULT=res)
    p = subprocess.run([sys.executable, os.path.join(ROOT, 'tools', 'seed_run.py'), os.path.join(ROOT, 'seeded', d, 'patch.diff')] + meta['breaks'],
                       env=env, capture_output=True, text=True)
    print('=== %s\n%s' % (d, p.stdout.strip()), flush=True)
    if os.path.exists(res):
        r = json.load(open(res))
        for k, v in r.items():
            if v['rc'] == 0:
                meta['check_results'][k] = 'MISSED'
            elif 'no-failing-input-found' in v['summary']:
                meta['check_results'][k] = 'caught (no-input)'
            else:
                meta['check_results'][k] = 'caught (input)'
        json.dump(meta, open(mp, 'w'), indent=1)
subprocess.run([sys.executable, os.path.join(ROOT, 'tools', 'seed_index.py')])
