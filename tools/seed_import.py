#!/usr/bin/env python3
"""seed_import.py <name> <out-dir> <breaks(comma)> <summary> <needs>  - store a confirmed seeded change under seeded/<name>/"""
import json, os, shutil, sys
ROOT = os.path.dirname(os.path.dirname(os.path.abspath(__file__)))
name, out, breaks, summary, needs = sys.argv[1:6]
d = os.path.join(ROOT, 'seeded', name)
os.makedirs(d, exist_ok=True)
shutil.copy(os.path.join(out, 'patch.diff'), os.path.join(d, 'patch.diff'))
if os.path.exists(os.path.join(out, 'demo.rs')):
    shutil.copy(os.path.join(out, 'demo.rs'), os.path.join(d, 'demo.rs'))
meta = {'breaks': breaks.split(','), 'summary': summary, 'needs': needs,
        'origin': 'fresh sub-agent given only the property text and a private worktree' if name.startswith('agent') else 'reverse of a fix: commit (the original defect of the repository)',
        'confirmed': 'in a scratch worktree outside /repo and /verif: demo.rs as tests/seeded_demo.rs passes on the unchanged tree and fails with the patch; '
                     'cargo test --workspace --no-fail-fast --offline with the patch: 70 ok / 18 failed, the same 18 that fail offline on the unchanged tree'
                     if name.startswith('agent') else 'the failing input is the one recorded in known_findings.json (fixed: entry); reproduced on the real code before the repair',
        'check_results': {}}
mp = os.path.join(d, 'meta.json')
if os.path.exists(mp):
    meta['check_results'] = json.load(open(mp)).get('check_results', {})
json.dump(meta, open(mp, 'w'), indent=1)
print('stored', d)
