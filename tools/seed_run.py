#!/usr/bin/env python3
"""seed_run.py <patch.diff> <property> [<property> ...]
Applies a seeded change to /repo's working tree, runs the quick check of the listed properties, and
ALWAYS restores the tree (git checkout -- . ; git clean of files the patch added under src/).
Prints one line per property: <id> rc=<n> <VIOLATION line or last line>."""
import json, os, subprocess, sys
ROOT = os.path.dirname(os.path.dirname(os.path.abspath(__file__)))
REPO = '/repo'

def main():
    patch = os.path.abspath(sys.argv[1])
    props = sys.argv[2:]
    st = subprocess.run(['git', '-C', REPO, 'status', '--porcelain'], capture_output=True, text=True).stdout.strip()
    if st:
        print('refusing: /repo working tree is not clean:\n' + st)
        sys.exit(2)
    r = subprocess.run(['git', '-C', REPO, 'apply', patch], capture_output=True, text=True)
    if r.returncode != 0:
        print('patch does not apply: ' + r.stderr.strip())
        sys.exit(2)
    results = {}
    try:
        for p in props:
            c = subprocess.run([os.path.join(ROOT, 'check'), p, '--tier', 'quick'], cwd=ROOT, capture_output=True, text=True)
            lines = [l for l in c.stdout.splitlines() if l.strip()]
            viol = [l for l in lines if l.startswith('VIOLATION')]
            detail = [l.strip() for l in lines if l.startswith('  ')][:4]
            summary = viol[0] if viol else (lines[-1] if lines else '')
            results[p] = {'rc': c.returncode, 'summary': summary, 'detail': detail}
            print('%s rc=%d %s' % (p, c.returncode, summary[:200]))
            for d in detail:
                print('      ' + d[:200])
            if viol:
                # keep a copy of the replay file for the record
                rp = viol[0].split('replay=')[1].split()[0]
                try:
                    results[p]['replay_head'] = open(os.path.join(ROOT, rp)).read()[:1500]
                except OSError:
                    pass
    finally:
        subprocess.run(['git', '-C', REPO, 'checkout', '--', '.'])
        subprocess.run(['git', '-C', REPO, 'clean', '-fdq', 'src', 'tests'])
    out = os.environ.get('SEED_RESULT')
    if out:
        json.dump(results, open(out, 'w'), indent=1)

if __name__ == '__main__':
    main()
