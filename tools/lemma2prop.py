#!/usr/bin/env python3
"""lemma2prop.py <lemma-file.lean> <name> [<name> ...]
Prints, for each named theorem of a Fir/Proofs file, a wrapper theorem with the identical statement whose proof is
`Fir.Proofs.<name> <binders...>` - used to restate lemmas in the theorem-only Fir/Props files."""
import re, sys
src = open(sys.argv[1]).read()
for name in sys.argv[2:]:
    m = re.search(r'((?:/--(?:(?!-/).)*-/\s*)?)theorem %s\b' % re.escape(name), src, re.S)
    if not m:
        sys.exit('not found: ' + name)
    doc = m.group(1)
    i = m.end()
    # binders: top-level (...) / {...} groups until the first top-level ':'
    depth = 0
    j = i
    groups = []
    start = None
    while True:
        c = src[j]
        if c in '({[':
            if depth == 0:
                start = j
            depth += 1
        elif c in ')}]':
            depth -= 1
            if depth == 0:
                groups.append(src[start:j + 1])
        elif c == ':' and depth == 0:
            break
        j += 1
    # end of the statement: first ':=' at bracket depth 0
    depth = 0
    k = j + 1
    while True:
        c = src[k]
        if c in '({[⟨':
            depth += 1
        elif c in ')}]⟩':
            depth -= 1
        elif depth == 0 and src.startswith(':=', k):
            break
        k += 1
    stmt = src[j + 1:k].rstrip()
    args = []
    for g in groups:
        if g[0] != '(':
            continue
        names = g[1:g.index(':')].split()
        args += names
    header = src[i:j].rstrip()
    print('open Fir.Proofs in\n%stheorem %s%s :%s :=\n  Fir.Proofs.%s %s\n' % (doc, name, header, stmt, name, ' '.join(args)))
