#!/usr/bin/env python3
"""Regenerates /verif/MANIFEST.json from tools/props.py (run after editing props.py)."""
import json, os, sys
ROOT = os.path.dirname(os.path.dirname(os.path.abspath(__file__)))
sys.path.insert(0, os.path.join(ROOT, 'tools'))
import props

ALL = ['C%02d' % i for i in range(1, 19)]
hooks_commits = ["7dd4c3a verif hooks: read-only accessors behind --cfg fir_verif (add-only)"]
manifest = {
    "version": 1,
    "setup_cmd": "./setup.sh",
    "hooks": {
        "guard": "--cfg fir_verif",
        "enable": "harness/.cargo/config.toml sets rustflags = [\"--cfg\", \"fir_verif\"] for the path dependency on /repo; "
                  "src/verif_hooks.rs and four #[cfg(fir_verif)] re-exports are compiled only then",
        "baseline_off_cmd": "cd /repo && cargo test --workspace --no-fail-fast --offline",
        "source_commits": hooks_commits,
        "add_only": True,
    },
    "engines": [
        {"name": "lean-proof", "path": "lean/", "serves_properties": sorted(props.CONFIG),
         "kind_free_text": "Lean 4 theorems over definitions regenerated from the Rust source by tools/rs2lean.py "
                           "and over a hand-written executable model (Fir.Model)"},
        {"name": "correspondence", "path": "harness/", "serves_properties": sorted(props.CONFIG),
         "kind_free_text": "Rust harness calling the real code in-process; every case is answered by the compiled Lean model "
                           "(firmodel) and judged against the Lean Spec"},
    ],
    "checks": [],
    "not_applicable": [],
    "notes": "All checks: ./check <id> [--tier quick|thorough]; serialised by a file lock; evidence written to evidence/<id>.json.",
}
for pid in ALL:
    if pid in props.CONFIG:
        c = props.CONFIG[pid]
        manifest["checks"].append({
            "property_id": pid,
            "quick_cmd": "./check %s --tier quick" % pid,
            "thorough_cmd": "./check %s --tier thorough" % pid,
            "evidence_file": "evidence/%s.json" % pid,
            "replay_cmd_template": "./check %s --replay {path}" % pid,
            "engine": "lean-proof",
            "level_claimed": {"category": "proof", "text": c['level_text'], "design_ref": "DESIGN.md section 6, " + pid},
            "level_note": c['level_note'],
            "technique": c['technique'],
        })
    else:
        manifest["not_applicable"].append({"property_id": pid, "reason": props.PENDING.get(pid, "check not built yet")})
json.dump(manifest, open(os.path.join(ROOT, 'MANIFEST.json'), 'w'), indent=1)
print("MANIFEST.json: %d checks, %d not claimed" % (len(manifest['checks']), len(manifest['not_applicable'])))
