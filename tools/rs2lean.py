#!/usr/bin/env python3
"""rs2lean: translate the scalar integer core of fast_image_resize from Rust source to Lean 4.

Every run of ./check re-runs this translator on /repo's *current* working tree and rewrites
lean/Fir/Generated/*.lean (only when the content changes, so lake's incremental build stays warm).
Theorems in lean/Fir/Props are stated about these generated definitions, so a changed constant,
operator, cast, guard or table arm in the Rust source changes the proof obligation itself.

Subset handled (deliberately small; anything else is a TranslationError = a broken tie):
  fn items with typed integer parameters, `let`, integer literals, + - * / % << >> & |, comparisons,
  && || !, `as T`, .min .max .saturating_add .saturating_sub, if/else, early `return`,
  Ok(())/Err(E::V), `const` items, `const fn` table generators built from
  `while i < N { table[i] = EXPR; i += 1; }`, `matches!` lists and literal `match` arm tables.

Semantics of the output: every translated fn `f` yields
  f      : the value computed with release-build (wrapping) arithmetic,
  f_ok   : Bool, true iff no intermediate operation overflows / divides by zero / over-shifts,
           i.e. the debug-assertion build does not panic in it.
Unsigned values are `Nat`, signed values are `Int`; wrap-around is explicit (`% 2^n`).
"""
import os
import re
import sys

class TranslationError(Exception):
    pass

# ------------------------------------------------------------------------------------------------
# Tokenizer
# ------------------------------------------------------------------------------------------------
TOKEN_RE = re.compile(r"""
    (?P<ws>\s+|//[^\n]*|/\*.*?\*/)
  | (?P<num>0x[0-9a-fA-F_]+(?:[ui](?:8|16|32|64|size))?|\d[\d_]*(?:\.\d[\d_]*)?(?:[ui](?:8|16|32|64|size)|f32|f64)?)
  | (?P<id>[A-Za-z_][A-Za-z0-9_]*)
  | (?P<op><<=|>>=|\.\.=|<<|>>|<=|>=|==|!=|&&|\|\||\+=|-=|\*=|/=|->|=>|::|\.\.|[-+*/%&|^!<>=(){}\[\],;:.#?'])
""", re.X | re.S)

def tokenize(src):
    pos, out = 0, []
    while pos < len(src):
        m = TOKEN_RE.match(src, pos)
        if not m:
            raise TranslationError("cannot tokenize at %r" % src[pos:pos + 30])
        pos = m.end()
        if m.lastgroup == 'ws':
            continue
        out.append((m.lastgroup, m.group(m.lastgroup)))
    out.append(('eof', ''))
    return out

INT_TYPES = {'u8': (8, False), 'u16': (16, False), 'u32': (32, False), 'u64': (64, False),
             'usize': (64, False), 'i8': (8, True), 'i16': (16, True), 'i32': (32, True),
             'i64': (64, True), 'isize': (64, True)}

def type_bounds(t):
    bits, signed = INT_TYPES[t]
    if signed:
        return -(1 << (bits - 1)), (1 << (bits - 1)) - 1
    return 0, (1 << bits) - 1

# ------------------------------------------------------------------------------------------------
# Parser (expressions: Pratt; statements: tiny subset)
# ------------------------------------------------------------------------------------------------
BINOP_PREC = {'||': 1, '&&': 2, '==': 3, '!=': 3, '<': 3, '>': 3, '<=': 3, '>=': 3,
              '|': 4, '^': 5, '&': 6, '<<': 7, '>>': 7, '+': 8, '-': 8, '*': 9, '/': 9, '%': 9}
AS_PREC = 10

class Parser:
    def __init__(self, toks):
        self.t = toks
        self.i = 0

    def peek(self, k=0):
        return self.t[self.i + k]

    def next(self):
        tok = self.t[self.i]
        self.i += 1
        return tok

    def accept(self, val):
        if self.peek()[1] == val and self.peek()[0] != 'eof':
            self.i += 1
            return True
        return False

    def expect(self, val):
        tok = self.next()
        if tok[1] != val:
            raise TranslationError("expected %r, got %r (at token %d)" % (val, tok[1], self.i))
        return tok

    # ---- types
    def parse_type(self):
        kind, val = self.next()
        if kind != 'id':
            raise TranslationError("type expected, got %r" % val)
        while self.accept('::'):
            val = self.next()[1]
        return val

    # ---- expressions
    def parse_expr(self, min_prec=0, no_struct=False):
        lhs = self.parse_unary(no_struct)
        while True:
            kind, val = self.peek()
            if kind == 'id' and val == 'as' and AS_PREC >= min_prec:
                self.next()
                ty = self.parse_type()
                lhs = ('cast', lhs, ty)
                continue
            if kind == 'op' and val in BINOP_PREC and BINOP_PREC[val] >= min_prec:
                prec = BINOP_PREC[val]
                self.next()
                rhs = self.parse_expr(prec + 1, no_struct)
                lhs = ('bin', val, lhs, rhs)
                continue
            return lhs

    def parse_unary(self, no_struct):
        kind, val = self.peek()
        if kind == 'op' and val == '-':
            self.next()
            return ('neg', self.parse_unary(no_struct))
        if kind == 'op' and val == '!':
            self.next()
            return ('not', self.parse_unary(no_struct))
        return self.parse_postfix(self.parse_primary(no_struct))

    def parse_postfix(self, e):
        while True:
            if self.peek()[1] == '.' and self.peek(1)[0] == 'id':
                self.next()
                name = self.next()[1]
                if self.accept('('):
                    args = []
                    while not self.accept(')'):
                        args.append(self.parse_expr())
                        self.accept(',')
                    e = ('method', name, e, args)
                else:
                    e = ('field', e, name)
                continue
            if self.peek()[1] == '[' and self.peek()[0] == 'op':
                self.next()
                idx = self.parse_expr()
                self.expect(']')
                e = ('index', e, idx)
                continue
            return e

    def parse_primary(self, no_struct):
        kind, val = self.next()
        if kind == 'num':
            m = re.match(r'^(0x[0-9a-fA-F_]+|[\d_]+(?:\.[\d_]+)?)((?:[ui](?:8|16|32|64|size))|f32|f64)?$', val)
            body, suffix = m.group(1).replace('_', ''), m.group(2)
            if '.' in body:
                return ('float', body, suffix)
            return ('int', int(body, 0), suffix)
        if kind == 'op' and val == '(':
            if self.accept(')'):
                return ('unit',)
            e = self.parse_expr()
            self.expect(')')
            return ('paren', e)
        if kind == 'id' and val == 'if':
            return self.parse_if()
        if kind == 'id':
            path = [val]
            while self.accept('::'):
                path.append(self.next()[1])
            if self.peek()[1] == '!' and self.peek(1)[1] == '(':
                # macro call: keep raw token list of the arguments
                self.next(); self.next()
                depth, toks = 1, []
                while depth:
                    k, v = self.next()
                    if v == '(' and k == 'op':
                        depth += 1
                    elif v == ')' and k == 'op':
                        depth -= 1
                        if depth == 0:
                            break
                    toks.append((k, v))
                return ('macro', '::'.join(path), toks)
            if self.peek()[1] == '(' and self.peek()[0] == 'op':
                self.next()
                args = []
                while not self.accept(')'):
                    args.append(self.parse_expr())
                    self.accept(',')
                return ('call', '::'.join(path), args)
            return ('path', '::'.join(path))
        raise TranslationError("unexpected token %r in expression" % val)

    def parse_if(self):
        cond = self.parse_expr(no_struct=True)
        then = self.parse_block()
        els = None
        if self.peek() == ('id', 'else'):
            self.next()
            if self.peek() == ('id', 'if'):
                self.next()
                els = [('expr', self.parse_if())]
            else:
                els = self.parse_block()
        return ('if', cond, then, els)

    # ---- statements
    def parse_block(self):
        self.expect('{')
        stmts = []
        while not self.accept('}'):
            st = self.parse_stmt()
            if st[0] == 'multi':
                stmts.extend(st[1])
            else:
                stmts.append(st)
        return stmts

    def parse_stmt(self):
        kind, val = self.peek()
        if kind == 'id' and val == 'let':
            self.next()
            if self.peek() == ('op', '('):
                # `let (a, b) = (e1, e2);` : all right-hand sides are evaluated before any name is bound
                self.next()
                names = []
                while not self.accept(')'):
                    self.accept('mut') if self.peek() == ('id', 'mut') else None
                    names.append(self.next()[1])
                    self.accept(',')
                self.expect('=')
                self.expect('(')
                exprs = []
                while not self.accept(')'):
                    exprs.append(self.parse_expr())
                    self.accept(',')
                self.expect(';')
                if len(names) != len(exprs):
                    raise TranslationError("tuple pattern and tuple expression of different lengths")
                Parser.tmp_counter = getattr(Parser, 'tmp_counter', 0)
                tmps = []
                for _ in names:
                    Parser.tmp_counter += 1
                    tmps.append('tup%d' % Parser.tmp_counter)
                return ('multi', [('let', t, None, e) for t, e in zip(tmps, exprs)] +
                                 [('let', n, None, ('path', t)) for n, t in zip(names, tmps)])
            self.accept('mut') if self.peek() == ('id', 'mut') else None
            name = self.next()[1]
            ty = None
            if self.accept(':'):
                ty = self.parse_type()
                if self.peek()[1] == '<':   # generic args are not supported
                    raise TranslationError("generic type in let")
            self.expect('=')
            e = self.parse_expr()
            self.expect(';')
            return ('let', name, ty, e)
        if kind == 'id' and val == 'return':
            self.next()
            e = self.parse_expr()
            self.accept(';')
            return ('return', e)
        if kind == 'id' and val == 'while':
            self.next()
            cond = self.parse_expr(no_struct=True)
            body = self.parse_block()
            return ('while', cond, body)
        e = self.parse_expr()
        if self.peek()[1] in ('=', '+=', '-=') and self.peek()[0] == 'op':
            op = self.next()[1]
            rhs = self.parse_expr()
            self.expect(';')
            return ('assign', op, e, rhs)
        if self.accept(';'):
            return ('exprstmt', e)
        return ('expr', e)

# ------------------------------------------------------------------------------------------------
# Source access helpers
# ------------------------------------------------------------------------------------------------
def strip_cfg_test(src):
    i = src.find('#[cfg(test)]')
    return src if i < 0 else src[:i]

def find_fn(src, name):
    """Return (params [(name, type)], ret_type, body_tokens) of `fn name`."""
    m = re.search(r'\bfn\s+%s\s*(?:<[^>]*>)?\s*\(' % re.escape(name), src)
    if not m:
        raise TranslationError("fn %s not found" % name)
    # cut the item out by brace matching so that the rest of the file need not be tokenizable
    start = m.end() - 1
    j = src.index('{', start)
    depth = 0
    while True:
        if src[j] == '{':
            depth += 1
        elif src[j] == '}':
            depth -= 1
            if depth == 0:
                break
        j += 1
    toks = tokenize(src[start:j + 1])
    p = Parser(toks)
    p.expect('(')
    params = []
    while not p.accept(')'):
        if p.peek()[1] == '&':
            p.next()
        pname = p.next()[1]
        if pname in ('self', 'mut'):
            if pname == 'mut':
                pname = p.next()[1]
            else:
                params.append(('self', 'Self'))
                p.accept(',')
                continue
        p.expect(':')
        ptype = p.parse_type()
        params.append((pname, ptype))
        p.accept(',')
    ret = None
    if p.accept('->'):
        # return type: consume until '{'
        rt = []
        while p.peek()[1] != '{':
            rt.append(p.next()[1])
        ret = ''.join(rt)
    body = p.parse_block()
    return params, ret, body

def find_consts(src):
    """All `const NAME: T = EXPR;` items (not const fn), in order."""
    out = []
    for m in re.finditer(r'\b(?:const|static)\s+([A-Z][A-Z0-9_]*)\s*:\s*([A-Za-z0-9_\[\]; ]+?)\s*=\s*([^;]+);', src):
        out.append((m.group(1), m.group(2).strip(), m.group(3).strip()))
    return out

# ------------------------------------------------------------------------------------------------
# Constant evaluation (wrapping semantics + overflow detection)
# ------------------------------------------------------------------------------------------------
def wrap(v, t):
    bits, signed = INT_TYPES[t]
    v &= (1 << bits) - 1
    if signed and v >= 1 << (bits - 1):
        v -= 1 << bits
    return v

class ConstEnv:
    def __init__(self):
        self.vals = {}    # name -> (value, type)

    def eval(self, e, expected=None):
        k = e[0]
        if k == 'int':
            t = e[2] or expected      # None = not yet typed (Rust infers it from the use site)
            return e[1], t
        if k == 'paren':
            return self.eval(e[1], expected)
        if k == 'path':
            name = e[1]
            if name in self.vals:
                v, t = self.vals[name]
                return v, (t or expected)
            m = re.match(r'^([ui](?:8|16|32|64|size))::(MAX|MIN)$', name)
            if m:
                lo, hi = type_bounds(m.group(1))
                return (hi if m.group(2) == 'MAX' else lo), m.group(1)
            raise TranslationError("unknown constant %s" % name)
        if k == 'cast':
            v, _ = self.eval(e[1], None)
            return wrap(v, e[2]), e[2]
        if k == 'neg':
            v, t = self.eval(e[1], expected)
            return -v, t
        if k == 'bin':
            op, l, r = e[1], e[2], e[3]
            if op in ('<<', '>>'):
                lv, lt = self.eval(l, expected)
                rv, _ = self.eval(r, None)
                res = lv << rv if op == '<<' else lv >> rv
                return (wrap(res, lt) if lt else res), lt
            lt = self.probe(l) or self.probe(r) or expected
            lv, lt2 = self.eval(l, lt)
            rv, _ = self.eval(r, lt2)
            res = {'+': lv + rv, '-': lv - rv, '*': lv * rv,
                   '/': (abs(lv) // abs(rv)) * (1 if (lv < 0) == (rv < 0) else -1) if rv else 0,
                   '%': lv % rv if rv else 0, '&': lv & rv, '|': lv | rv}[op]
            if lt2:
                lo, hi = type_bounds(lt2)
                if not lo <= res <= hi:
                    raise TranslationError("constant expression overflows its type")
            return res, lt2
        raise TranslationError("cannot evaluate constant expression %r" % (e,))

    def probe(self, e):
        k = e[0]
        if k == 'int':
            return e[2]
        if k == 'paren':
            return self.probe(e[1])
        if k == 'path':
            if e[1] in self.vals:
                return self.vals[e[1]][1]
            m = re.match(r'^([ui](?:8|16|32|64|size))::(MAX|MIN)$', e[1])
            return m.group(1) if m else None
        if k == 'cast':
            return e[2]
        if k == 'bin':
            if e[1] in ('<<', '>>'):
                return self.probe(e[2])
            return self.probe(e[2]) or self.probe(e[3])
        if k == 'neg':
            return self.probe(e[1])
        return None

def parse_expr_str(s):
    p = Parser(tokenize(s))
    e = p.parse_expr()
    if p.peek()[0] != 'eof':
        raise TranslationError("trailing tokens in expression %r" % s)
    return e

def parse_body_str(s):
    """statements followed by a final expression (the text between the braces of a fn body)"""
    p = Parser(tokenize('{' + s + '}'))
    stmts = p.parse_block()
    if p.peek()[0] != 'eof':
        raise TranslationError("trailing tokens in body %r" % s)
    return stmts

# ------------------------------------------------------------------------------------------------
# Function translation
# ------------------------------------------------------------------------------------------------
class FnTranslator:
    """Translate one fn body into Lean (`val` expression and `ok` expression)."""

    def __init__(self, consts, result_codes=None, self_fields=None):
        self.consts = consts              # ConstEnv
        self.result_codes = result_codes or {}
        self.self_fields = self_fields or {}   # field name -> (lean name, type)

    # ---- typing
    def probe(self, e, env):
        k = e[0]
        if k == 'int':
            return e[2]
        if k in ('paren', 'neg'):
            return self.probe(e[1], env)
        if k == 'path':
            if e[1] in env:
                return env[e[1]]
            return self.consts.probe(e)
        if k == 'cast':
            return e[2]
        if k == 'bin':
            if e[1] in ('<<', '>>'):
                return self.probe(e[2], env)
            if e[1] in ('==', '!=', '<', '>', '<=', '>=', '&&', '||'):
                return 'bool'
            return self.probe(e[2], env) or self.probe(e[3], env)
        if k == 'method':
            if e[1] in ('min', 'max', 'saturating_add', 'saturating_sub', 'abs', 'get', 'to_owned'):
                return self.probe(e[2], env) or (self.probe(e[3][0], env) if e[3] else None)
        if k == 'field' and e[1] == ('path', 'self') and e[2] in self.self_fields:
            return self.self_fields[e[2]][1]
        if k == 'if':
            return None
        return None

    # ---- expression -> (lean_val, [ok conditions], type)
    def tr(self, e, env, expected=None):
        k = e[0]
        if k == 'int':
            t = e[2] or expected or 'i32'
            if t not in INT_TYPES:
                raise TranslationError("integer literal in non-integer context (%s)" % t)
            return str(e[1]), [], t
        if k == 'paren':
            v, ok, t = self.tr(e[1], env, expected)
            return v, ok, t
        if k == 'path':
            name = e[1]
            if name in env:
                # `let` bindings are inlined (see tr_block): the generated text does not depend on which
                # temporaries the source introduces
                return env.get('\x00val:' + name, name), [], env[name]
            v, t = self.consts.eval(e, expected)
            t = t or expected or 'i32'
            lo, hi = type_bounds(t)
            if not lo <= v <= hi:
                raise TranslationError("constant %s does not fit its inferred type %s" % (e[1], t))
            return (str(v) if v >= 0 else '(%d)' % v), [], t
        if k == 'field':
            if e[1] == ('path', 'self') and e[2] in self.self_fields:
                n, t = self.self_fields[e[2]]
                return n, [], t
            raise TranslationError("field access %r" % (e,))
        if k == 'cast':
            v, ok, t = self.tr(e[1], env, None if e[1][0] != 'int' else e[2])
            return self.cast(v, t, e[2]), ok, e[2]
        if k == 'neg':
            v, ok, t = self.tr(e[1], env, expected)
            lo, hi = type_bounds(t)
            return '(-%s)' % v, ok + ['(-%s) ≤ %d' % (v, hi)], t
        if k == 'not':
            v, ok, t = self.tr(e[1], env, 'bool')
            return '(!%s)' % v, ok, 'bool'
        if k == 'bin':
            return self.tr_bin(e, env, expected)
        if k == 'method':
            return self.tr_method(e, env, expected)
        if k == 'if':
            return self.tr_if(e, env, expected)
        if k == 'call':
            if e[1] in ('Ok', 'Err'):
                key = self.result_key(e)
                if key not in self.result_codes:
                    raise TranslationError("unknown result value %s" % key)
                return str(self.result_codes[key]), [], 'result'
        raise TranslationError("unsupported expression %r" % (e,))

    def result_key(self, e):
        if e[1] == 'Ok':
            return 'Ok'
        arg = e[2][0]
        if arg[0] == 'path':
            return 'Err(%s)' % arg[1].split('::')[-1]
        raise TranslationError("unsupported Err payload")

    def cast(self, v, src_t, dst_t):
        if src_t == 'bool' or dst_t not in INT_TYPES or src_t not in INT_TYPES:
            raise TranslationError("unsupported cast %s -> %s" % (src_t, dst_t))
        sb, ss = INT_TYPES[src_t]
        db, ds = INT_TYPES[dst_t]
        if not ss and not ds:
            return v if db >= sb else '(%s %% %d)' % (v, 1 << db)
        if not ss and ds:
            if db > sb:
                return '(%s : Int)' % v
            return '(wrapInt %d (%s : Int))' % (db, v)
        if ss and ds:
            return v if db >= sb else '(wrapInt %d %s)' % (db, v)
        # signed -> unsigned
        return '(Int.toNat (%s %% %d))' % (v, 1 << db)

    def tr_bin(self, e, env, expected):
        op, l, r = e[1], e[2], e[3]
        if op not in ('&&', '||', '==', '!=', '<', '>', '<=', '>='):
            try:   # literal-only sub-expression: fold it (overflow is a translation error)
                v, t = ConstEnv().eval(e, expected)
                t = t or expected or 'i32'
                lo, hi = type_bounds(t)
                if lo <= v <= hi:
                    return (str(v) if v >= 0 else '(%d)' % v), [], t
            except TranslationError:
                pass
        if op in ('&&', '||'):
            lv, lok, _ = self.tr(l, env, 'bool')
            rv, rok, _ = self.tr(r, env, 'bool')
            # Rust short-circuits: the right operand is only evaluated when needed
            if rok:
                guard = lv if op == '&&' else '(!%s)' % lv
                rok = ['(%s → %s)' % (self.as_prop(guard), self.conj(rok))]
            return '(%s %s %s)' % (lv, op, rv), lok + rok, 'bool'
        if op in ('==', '!=', '<', '>', '<=', '>='):
            t = self.probe(l, env) or self.probe(r, env) or 'i32'
            lv, lok, t = self.tr(l, env, t)
            rv, rok, _ = self.tr(r, env, t)
            lop = {'==': '=', '!=': '≠', '<': '<', '>': '>', '<=': '≤', '>=': '≥'}[op]
            return '(decide (%s %s %s))' % (lv, lop, rv), lok + rok, 'bool'
        if op in ('<<', '>>'):
            lv, lok, t = self.tr(l, env, expected)
            rv, rok, rt = self.tr(r, env, 'u32' if r[0] == 'int' else None)
            bits, signed = INT_TYPES[t]
            ok = lok + rok + ['%s < %d' % (rv, bits)]
            rn = rv if not INT_TYPES[rt][1] else '(Int.toNat %s)' % rv
            if re.fullmatch(r'\d+', rn):
                pw = str(1 << int(rn))
            else:
                pw = '(2 ^ %s)' % rn
            if op == '>>':
                return '(%s / %s)' % (lv, pw), ok, t
            if signed:
                return '(wrapInt %d (%s * %s))' % (bits, lv, pw), ok, t
            return '((%s * %s) %% %d)' % (lv, pw, 1 << bits), ok, t
        t = self.probe(l, env) or self.probe(r, env) or expected or 'i32'
        lv, lok, t = self.tr(l, env, t)
        rv, rok, _ = self.tr(r, env, t)
        bits, signed = INT_TYPES[t]
        lo, hi = type_bounds(t)
        ok = lok + rok
        if op in ('+', '-', '*'):
            raw = '(%s %s %s)' % (lv, op, rv)
            if signed:
                ok.append('%d ≤ %s ∧ %s ≤ %d' % (lo, raw, raw, hi))
                return '(wrapInt %d %s)' % (bits, raw), ok, t
            if op == '-':
                ok.append('%s ≤ %s' % (rv, lv))
                return '((%s + %d - %s) %% %d)' % (lv, 1 << bits, rv, 1 << bits), ok, t
            ok.append('%s ≤ %d' % (raw, hi))
            return '(%s %% %d)' % (raw, 1 << bits), ok, t
        if op in ('/', '%'):
            ok.append('%s ≠ 0' % rv)
            if signed:
                f = 'Int.tdiv' if op == '/' else 'Int.tmod'
                return '(%s %s %s)' % (f, lv, rv), ok, t
            return '(%s %s %s)' % (lv, op, rv), ok, t
        if op in ('&', '|') and not signed:
            return '(%s %s %s)' % (lv, '&&&' if op == '&' else '|||', rv), ok, t
        raise TranslationError("unsupported operator %s" % op)

    def tr_method(self, e, env, expected):
        name, recv, args = e[1], e[2], e[3]
        if name in ('get', 'to_owned'):
            return self.tr(recv, env, expected)
        t = self.probe(recv, env) or (self.probe(args[0], env) if args else None) or expected
        rv, rok, t = self.tr(recv, env, t)
        if name in ('min', 'max'):
            av, aok, _ = self.tr(args[0], env, t)
            return '(%s %s %s)' % (name, rv, av), rok + aok, t
        if name == 'clamp':
            lov, look, _ = self.tr(args[0], env, t)
            hiv, hiok, _ = self.tr(args[1], env, t)
            # Rust panics if min > max
            return '(max %s (min %s %s))' % (lov, hiv, rv), rok + look + hiok + ['%s ≤ %s' % (lov, hiv)], t
        if name in ('saturating_add', 'saturating_sub', 'saturating_mul'):
            av, aok, _ = self.tr(args[0], env, t)
            lo, hi = type_bounds(t)
            op = {'saturating_add': '+', 'saturating_sub': '-', 'saturating_mul': '*'}[name]
            if INT_TYPES[t][1]:
                return '(max (%d) (min %d (%s %s %s)))' % (lo, hi, rv, op, av), rok + aok, t
            if op in ('+', '*'):
                return '(min %d (%s %s %s))' % (hi, rv, op, av), rok + aok, t
            return '(%s - %s)' % (rv, av), rok + aok, t   # Nat subtraction saturates at 0
        raise TranslationError("unsupported method .%s()" % name)

    def tr_if(self, e, env, expected):
        cv, cok, _ = self.tr(e[1], env, 'bool')
        tv, tok, tt = self.tr_block(e[2], dict(env), expected)
        if e[3] is None:
            raise TranslationError("if without else in expression position")
        ev, eok, _ = self.tr_block(e[3], dict(env), expected or tt)
        val = '(if %s then %s else %s)' % (cv, tv, ev)
        ok = cok + ['(if %s then %s else %s)' % (cv, self.conj(tok), self.conj(eok))]
        return val, ok, tt

    @staticmethod
    def as_prop(b):
        return '(%s = true)' % b

    @staticmethod
    def conj(oks):
        return '(' + ' ∧ '.join(oks) + ')' if oks else 'True'

    # ---- blocks: returns (val, ok list, type)
    def tr_block(self, stmts, env, expected):
        if not stmts:
            raise TranslationError("empty block")
        s, rest = stmts[0], stmts[1:]
        k = s[0]
        if k == 'let':
            hint = s[2]
            if hint is not None and hint not in INT_TYPES:
                raise TranslationError("let with non-integer type %s" % hint)
            v, ok, t = self.tr(s[3], env, hint)
            env2 = dict(env)
            env2[s[1]] = t
            env2['\x00val:' + s[1]] = v if re.match(r'^[\w.]+$|^\(.*\)$', v) else '(%s)' % v
            bv, bok, bt = self.tr_block(rest, env2, expected)
            return bv, ok + bok, bt
        if k == 'expr' and s[1][0] == 'if' and s[1][3] is None and rest:
            # `if c { return X; }` followed by more statements
            cv, cok, _ = self.tr(s[1][1], env, 'bool')
            tv, tok, tt = self.tr_block(s[1][2], dict(env), expected)
            rv, rok, rt = self.tr_block(rest, env, expected or tt)
            val = '(if %s then %s else %s)' % (cv, tv, rv)
            ok = cok + ['(if %s then %s else %s)' % (cv, self.conj(tok), self.conj(rok))]
            return val, ok, rt
        if k == 'return' or (k == 'expr' and not rest):
            return self.tr(s[1], env, expected)
        raise TranslationError("unsupported statement %r" % (s[:2],))

LEAN_PRELUDE = '''/-
  GENERATED by /verif/tools/rs2lean.py from /repo/src - do not edit.
  Regenerated on every run of ./check; theorems in Fir/Props are stated about these definitions.
-/
namespace Fir.Gen

/-- two's-complement wrap of an integer to `bits` bits (release-build semantics of signed overflow) -/
def wrapInt (bits : Nat) (x : Int) : Int :=
  let m : Int := 2 ^ bits
  let r := x % m
  if r < m / 2 then r else r - m

'''

def lean_ty(t):
    if t in ('bool',):
        return 'Bool'
    if t == 'result':
        return 'Nat'
    return 'Int' if INT_TYPES[t][1] else 'Nat'

def emit_fn(lean_name, params, val, oks, ret_t, doc):
    ps = ' '.join('(%s : %s)' % (n, lean_ty(t)) for n, t in params)
    out = '/-- %s -/\n' % doc
    out += 'def %s %s : %s :=\n  %s\n\n' % (lean_name, ps, lean_ty(ret_t), val)
    out += '/-- no overflow / division by zero / over-shift inside `%s` (debug build does not panic) -/\n' % lean_name
    out += 'def %s_ok %s : Prop :=\n  %s\n\n' % (lean_name, ps, FnTranslator.conj(oks))
    out += 'instance %s_ok_dec %s : Decidable (%s_ok %s) := by\n  unfold %s_ok; infer_instance\n\n' % (
        lean_name, ps, lean_name, ' '.join(n for n, _ in params), lean_name)
    return out

def translate_fn(src, name, consts, lean_name=None, result_codes=None, ret_hint=None,
                 self_fields=None, extra_params=None, file=''):
    params, ret, body = find_fn(src, name)
    tr = FnTranslator(consts, result_codes, self_fields)
    env = {}
    lparams = []
    for n, t in params:
        if n == 'self':
            continue
        if t not in INT_TYPES:
            raise TranslationError("fn %s: parameter %s has unsupported type %s" % (name, n, t))
        env[n] = t
        lparams.append((n, t))
    for n, t in (extra_params or []):
        env[n] = t
        lparams.append((n, t))
    expected = ret_hint or (ret if ret in INT_TYPES else None)
    if ret and ret.startswith('Result'):
        expected = 'result'
    val, oks, t = tr.tr_block(body, env, expected)
    if expected and expected != 'result' and t != expected:
        raise TranslationError("fn %s: body type %s != declared %s" % (name, t, expected))
    return emit_fn(lean_name or name, lparams, val, oks, t, '%s: fn %s' % (file, name)), lparams, t

# ------------------------------------------------------------------------------------------------
# const fn table generators:  while i < N { table[i] = EXPR; i += 1; }
# ------------------------------------------------------------------------------------------------
def translate_table_fn(src, name, consts, arg_vals, lean_name, file):
    """Translate a `const fn` that fills an array with while-loops into a function of the index."""
    params, ret, body = find_fn(src, name)
    m = re.match(r'\[(\w+);(\d+)\]', ret.replace(' ', '')) if ret else None
    if not m:
        raise TranslationError("table fn %s: return type %r is not an array" % (name, ret))
    elem_t, size = m.group(1), int(m.group(2))
    cenv = ConstEnv()
    cenv.vals = dict(consts.vals)
    if len(params) != len(arg_vals):
        raise TranslationError("table fn %s: arity changed" % name)
    for (pn, pt), av in zip(params, arg_vals):
        cenv.vals[pn] = (av, pt)
    table_name = None
    idx_name = None
    idx_val = None
    pieces = []   # (lo, hi, expr_ast)
    for s in body:
        if s[0] == 'let':
            e = s[3]
            if e[0] == 'index' or (e[0] == 'macro'):
                raise TranslationError("table fn %s: unsupported initialiser" % name)
            if s[3][0] == 'arrayinit':
                pass
            # array initialiser `[0; N]` is parsed as index of nothing -> handle textually below
            try:
                v, t = cenv.eval(e, s[2])
                if table_name is not None and s[2] in (None, 'usize') and idx_name is None and s[1] == 'i':
                    idx_name, idx_val = s[1], v
                cenv.vals[s[1]] = (v, t)
            except TranslationError:
                raise
        elif s[0] == 'while':
            cond = s[1]
            if not (cond[0] == 'bin' and cond[1] == '<' and cond[2] == ('path', 'i')):
                raise TranslationError("table fn %s: loop condition shape changed" % name)
            bound, _ = cenv.eval(cond[3], 'usize')
            bodys = s[2]
            if len(bodys) != 2 or bodys[0][0] != 'assign' or bodys[0][1] != '=' \
               or bodys[0][2][0] != 'index' or bodys[0][2][2] != ('path', 'i') \
               or bodys[1] != ('assign', '+=', ('path', 'i'), ('int', 1, None)):
                raise TranslationError("table fn %s: loop body shape changed" % name)
            lo = cenv.vals['i'][0]
            if bound > size:
                raise TranslationError("table fn %s: loop writes past the table (bound %d > %d)" % (name, bound, size))
            if lo < bound:
                pieces.append((lo, bound, bodys[0][3]))
                cenv.vals['i'] = (bound, 'usize')
        elif s[0] == 'expr':
            pass
        else:
            raise TranslationError("table fn %s: unsupported statement %r" % (name, s[0]))
    # translate element expressions with `i` as a variable
    consts2 = ConstEnv()
    consts2.vals = {k: v for k, v in cenv.vals.items() if k != 'i'}
    tr = FnTranslator(consts2)
    val = '0'
    oks = []
    for lo, hi, ex in reversed(pieces):
        v, ok, t = tr.tr(ex, {'i': 'usize'}, elem_t)
        if t != elem_t:
            raise TranslationError("table fn %s: element type %s != %s" % (name, t, elem_t))
        val = '(if %d ≤ i ∧ i < %d then %s else %s)' % (lo, hi, v, val)
        if ok:
            oks.append('(%d ≤ i ∧ i < %d → %s)' % (lo, hi, FnTranslator.conj(ok)))
    out = emit_fn(lean_name, [('i', 'usize')], val, oks, elem_t,
                  '%s: table built by const fn %s(%s), as a function of the index; size %d'
                  % (file, name, ', '.join(map(str, arg_vals)), size))
    out += 'def %s_size : Nat := %d\n\n' % (lean_name, size)
    return out

# array initialiser support: `[0; 256]` / `[0u8; 1280]` are rewritten to `0` before parsing
def preprocess(src):
    return re.sub(r'\[\s*0(?:u8|u16|u32|u64)?\s*;\s*\d+\s*\]', '0', src)

# ------------------------------------------------------------------------------------------------
# Whole-repo translation
# ------------------------------------------------------------------------------------------------
def read(repo, rel):
    with open(os.path.join(repo, rel)) as f:
        return preprocess(strip_cfg_test(f.read()))

def consts_of(src, names, base=None):
    env = ConstEnv()
    if base:
        env.vals.update(base.vals)
    found = {n: (t, e) for n, t, e in find_consts(src)}
    for n in names:
        if n not in found:
            raise TranslationError("const %s not found" % n)
        t, e = found[n]
        if t not in INT_TYPES:
            raise TranslationError("const %s has non-integer type %s" % (n, t))
        v, _ = env.eval(parse_expr_str(e), t)
        lo, hi = type_bounds(t)
        if not lo <= v <= hi:
            raise TranslationError("const %s overflows" % n)
        env.vals[n] = (v, t)
    return env

def emit_consts(env, names, file):
    out = ''
    for n in names:
        v, t = env.vals[n]
        out += '/-- %s: const %s: %s -/\ndef %s : %s := %d\n\n' % (file, n, t, n, lean_ty(t), v)
    return out

def gen_alpha(repo):
    f = 'src/alpha/common.rs'
    src = read(repo, f)
    names = ['PRECISION', 'ROUND_CORRECTION', 'PRECISION16', 'ROUND_CORRECTION16']
    env = consts_of(src, names)
    out = emit_consts(env, names, f)
    for fn in ('mul_div_255', 'mul_div_65535', 'div_and_clip', 'div_and_clip16'):
        out += translate_fn(src, fn, env, file=f)[0]
    # tables: RECIP_ALPHA = recip_alpha_array(PRECISION) etc.
    found = {n: e for n, _, e in find_consts(src)}
    for tab, lean_name in (('RECIP_ALPHA', 'recip_alpha'), ('RECIP_ALPHA16', 'recip_alpha16')):
        if tab not in found:
            raise TranslationError("table %s not found" % tab)
        call = parse_expr_str(found[tab])
        if call[0] != 'call':
            raise TranslationError("table %s is no longer built by a const fn call" % tab)
        args = [env.eval(a)[0] for a in call[2]]
        out += translate_table_fn(src, call[1], env, args, lean_name, f)
    return out

def gen_clip(repo):
    f = 'src/convolution/optimisations.rs'
    src = read(repo, f)
    names = ['PRECISION_BITS', 'MAX_COEFFS_PRECISION', 'PRECISION16_BITS', 'MAX_COEFFS_PRECISION16']
    env = consts_of(src, names)
    out = emit_consts(env, names, f)
    found = {n: e for n, _, e in find_consts(src)}
    call = parse_expr_str(found['CLIP8_LOOKUPS'])
    out += translate_table_fn(src, call[1], env, [], 'clip8_table', f)
    # Normalizer16::clip / Normalizer32::clip : index expression, debug_assert range, clamp
    m = re.search(r'pub unsafe fn clip\(&self, v: i32\) -> u8 \{(.*?)\n    \}', src, re.S)
    if not m:
        raise TranslationError("Normalizer16::clip not found")
    body = m.group(1)
    body = re.sub(r'//[^\n]*', '', body)
    mi = re.search(r'^(.*?)let index = (.*?);', body, re.S)
    ma = re.search(r'debug_assert!\(\((\d+)\.\.=(\d+)\)\.contains\(&index\)\);', body)
    mg = re.search(r'\*CLIP8_LOOKUPS\.get_unchecked\(index\)', body)
    if not (mi and mg):
        raise TranslationError("Normalizer16::clip body shape changed")
    tr = FnTranslator(env, self_fields={'precision': ('precision', 'u8')})
    # temporaries introduced before `let index = ...;` are part of the index expression
    v, ok, t = tr.tr_block(parse_body_str(mi.group(1) + mi.group(2)), {'v': 'i32'}, 'usize')
    out += emit_fn('clip16_index', [('v', 'i32'), ('precision', 'u8')], v, ok, t,
                   f + ': index expression of Normalizer16::clip')
    out += '/-- %s: range asserted by debug_assert! in Normalizer16::clip (none: no assertion) -/\n' % f
    out += 'def clip16_assert : Option (Nat × Nat) := %s\n\n' % (
        'some (%s, %s)' % (ma.group(1), ma.group(2)) if ma else 'none')
    m = re.search(r'pub fn clip\(&self, v: i64\) -> u16 \{(.*?)\n    \}', src, re.S)
    if not m:
        raise TranslationError("Normalizer32::clip not found")
    v, ok, t = tr.tr(parse_expr_str(m.group(1).strip()), {'v': 'i64'}, 'u16')
    out += emit_fn('clip32', [('v', 'i64'), ('precision', 'u8')], v, ok, t,
                   f + ': Normalizer32::clip')
    return out

def gen_constify(repo):
    f = 'src/convolution/macros.rs'
    src = read(repo, f)
    m = re.search(r'macro_rules! constify_imm8 \{(.*?)\n\}', src, re.S)
    if not m:
        raise TranslationError("constify_imm8 not found")
    body = m.group(1)
    mm = re.search(r'match \(\$imm8\) & (0b[01_]+)', body)
    mask = int(mm.group(1).replace('_', ''), 0)
    arms = []
    noop = []
    for a in re.finditer(r'^\s*(\d+) => (.*?),?\s*$', body, re.M):
        n, rhs = int(a.group(1)), a.group(2).strip().rstrip(',')
        if rhs == '$expand!(%d)' % n:
            arms.append(n)
        elif rhs == '{}':
            noop.append(n)
        else:
            raise TranslationError("constify_imm8 arm %d has unexpected body %r" % (n, rhs))
    out = '/-- %s: constify_imm8!: mask applied to the immediate -/\ndef constify_mask : Nat := %d\n\n' % (f, mask)
    out += '/-- %s: immediates for which constify_imm8! expands the operation with that very immediate -/\n' % f
    out += 'def constify_arms : List Nat := %s\n\n' % arms
    out += '/-- %s: immediates for which constify_imm8! silently does nothing -/\n' % f
    out += 'def constify_noop_arms : List Nat := %s\n\n' % noop
    return out

def gen_threading(repo):
    f = 'src/threading.rs'
    src = read(repo, f)
    env = ConstEnv()
    out = ''
    for fn in ('calculate_max_h_parts_number', 'calculate_max_v_parts_number'):
        out += translate_fn(src, fn, env, file=f)[0]
    return out

CROP_CODES = {'Ok': 0, 'Err(PositionIsOutOfImageBoundaries)': 1, 'Err(SizeIsOutOfImageBoundaries)': 2,
              'Err(WidthOrHeightLessThanZero)': 3}

def gen_crop(repo):
    f = 'src/images/typed_cropped_image.rs'
    src = read(repo, f)
    env = ConstEnv()
    out = '/-- result codes: 0 = Ok, 1 = PositionIsOutOfImageBoundaries, 2 = SizeIsOutOfImageBoundaries, 3 = WidthOrHeightLessThanZero -/\n'
    out += 'def cropOk : Nat := 0\n\n'
    out += translate_fn(src, 'check_crop_box', env, result_codes=CROP_CODES, file=f)[0]
    return out

def gen_pixels(repo):
    f = 'src/pixels.rs'
    src = read(repo, f)
    env = ConstEnv()
    out = ''
    # PixelType::size
    m = re.search(r'pub fn size\(&self\) -> usize \{\s*match self \{(.*?)\n        \}', src, re.S)
    if not m:
        raise TranslationError("PixelType::size not found")
    sizes = {}
    default = None
    for a in re.finditer(r'(Self::(\w+)|_) => (\d+),', m.group(1)):
        if a.group(1) == '_':
            default = int(a.group(3))
        else:
            sizes[a.group(2)] = int(a.group(3))
    mt = re.search(r'pub enum PixelType \{(.*?)\}', src, re.S)
    variants = re.findall(r'\b([A-Z]\w*),', mt.group(1))
    out += '/-- %s: PixelType variants in declaration order -/\n' % f
    out += 'def pixelTypes : List String := %s\n\n' % str(variants).replace("'", '"')
    rows = []
    for v in variants:
        if v in sizes:
            rows.append((v, sizes[v]))
        elif default is not None:
            rows.append((v, default))
        else:
            raise TranslationError("PixelType::size has no arm for %s" % v)
    out += '/-- %s: PixelType::size() -/\n' % f
    out += 'def pixelSize : List (String × Nat) := [%s]\n\n' % ', '.join('("%s", %d)' % r for r in rows)
    # pixel_struct!(NAME, type, comp_type, count, ...)
    comps = []
    for a in re.finditer(r'pixel_struct!\(\s*(\w+),\s*(?:\[\w+;\s*\d+\]|\w+),\s*(\w+),\s*(\d+),', src):
        comps.append((a.group(1), a.group(2), int(a.group(3))))
    out += '/-- %s: pixel_struct! declarations: (name, component type, component count) -/\n' % f
    out += 'def pixelStructs : List (String × String × Nat) := [%s]\n\n' % ', '.join(
        '("%s", "%s", %d)' % c for c in comps)
    # integer IntoPixelComponent impls
    for a in re.finditer(r'impl IntoPixelComponent<(\w+)> for (\w+) \{\s*fn into_component\(self\) -> (\w+) \{(.*?)\n    \}\s*\}', src, re.S):
        dst, srct, ret, body = a.group(1), a.group(2), a.group(3), a.group(4).strip()
        if srct not in INT_TYPES or dst not in INT_TYPES:
            continue
        name = 'conv_%s_%s' % (srct, dst)
        # byte-order helpers are rewritten to arithmetic with the same meaning
        body2 = body
        if body2 == 'u16::from_le_bytes([self, self])':
            body2 = '(self as u16) << 8 | (self as u16)'
        elif body2 == 'self.to_le_bytes()[1]':
            body2 = '(self >> 8) as u8'
        body2 = re.sub(r'\bself\b', 'x', body2)
        tr = FnTranslator(env)
        v, ok, t = tr.tr_block(parse_body_str(body2), {'x': srct}, dst)
        if t != dst:
            raise TranslationError("%s: type %s" % (name, t))
        out += emit_fn(name, [('x', srct)], v, ok, t, '%s: impl IntoPixelComponent<%s> for %s  { %s }'
                       % (f, dst, srct, ' '.join(body.split())))
    # float conversions: record the text of their bodies (shape check only; modelled by hand)
    fl = []
    for a in re.finditer(r'impl IntoPixelComponent<(\w+)> for (\w+) \{\s*fn into_component\(self\) -> (\w+) \{(.*?)\n    \}\s*\}', src, re.S):
        dst, srct, body = a.group(1), a.group(2), ' '.join(a.group(4).split())
        if srct in INT_TYPES and dst in INT_TYPES:
            continue
        fl.append((srct, dst, body))
    out += '/-- %s: source text of the float IntoPixelComponent impls (modelled by hand in Fir.Model.Convert;\n' % f
    out += '    the model asserts these exact shapes, see Fir.Props.C17) -/\n'
    out += 'def floatConvSources : List (String × String × String) := [\n%s]\n\n' % ',\n'.join(
        '  ("%s", "%s", "%s")' % (s, d, b.replace('"', '\\"')) for s, d, b in fl)
    return out

def gen_lists(repo):
    out = ''
    f = 'src/mul_div.rs'
    src = read(repo, f)
    m = re.search(r'pub fn is_supported\(&self, pixel_type: PixelType\) -> bool \{\s*#\[cfg\(not\(feature = "only_u8x4"\)\)\]\s*\{\s*matches!\(\s*pixel_type,(.*?)\)', src, re.S)
    if not m:
        raise TranslationError("MulDiv::is_supported not found")
    sup = re.findall(r'PixelType::(\w+)', m.group(1))
    out += '/-- %s: MulDiv::is_supported -/\ndef alphaSupported : List String := %s\n\n' % (f, str(sup).replace("'", '"'))
    for fn in ('multiply_alpha', 'multiply_alpha_inplace', 'divide_alpha', 'divide_alpha_inplace'):
        mm = re.search(r'pub fn %s\(.*?#\[cfg\(not\(feature = "only_u8x4"\)\)\]\s*match \w+ \{(.*?)\n        \}' % fn, src, re.S)
        if not mm:
            raise TranslationError("MulDiv::%s dispatch not found" % fn)
        arms = re.findall(r'PixelType::(\w+) => self\.\w+::<(\w+)>', mm.group(1))
        for a, b in arms:
            if a != b:
                raise TranslationError("MulDiv::%s dispatches %s to %s" % (fn, a, b))
        if '_ => Err(' not in mm.group(1):
            raise TranslationError("MulDiv::%s lost its rejecting default arm" % fn)
        out += '/-- %s: MulDiv::%s dispatch arms (all others are rejected) -/\ndef dispatch_%s : List String := %s\n\n' % (
            f, fn, fn, str([a for a, _ in arms]).replace("'", '"'))
    f = 'src/alpha/mod.rs'
    src = read(repo, f)
    rej = re.findall(r'impl AlphaMulDiv for pixels::(\w+) \{\}', src)
    out += '/-- %s: pixel types with the default (rejecting) AlphaMulDiv impl -/\ndef alphaRejecting : List String := %s\n\n' % (
        f, str(rej).replace("'", '"'))
    for meth in ('multiply_alpha', 'multiply_alpha_inplace', 'divide_alpha', 'divide_alpha_inplace'):
        mm = re.search(r'fn %s\((.*?)\) -> Result<\(\), ImageError> \{\s*Err\(ImageError::UnsupportedPixelType\)\s*\}' % meth, src, re.S)
        if not mm:
            raise TranslationError("default AlphaMulDiv::%s no longer rejects" % meth)
    f = 'src/convolution/filters.rs'
    src = read(repo, f)
    m = re.search(r'fn get_filter_func\(.*?match filter_type \{(.*?)\n    \}', src, re.S)
    sup = re.findall(r'FilterType::(\w+) => \((\w+), ([\d.]+)\)', m.group(1))
    out += '/-- %s: get_filter_func: (filter, function, support numerator/denominator) -/\n' % f
    rows = []
    for name, fn, s in sup:
        num, den = s.split('.')
        den_v = 10 ** len(den)
        rows.append('("%s", "%s", %d, %d)' % (name, fn, int(num + den), den_v))
    out += 'def filterSupports : List (String × String × Nat × Nat) := [%s]\n\n' % ', '.join(rows)
    f = 'src/resizer.rs'
    src = read(repo, f)
    m = re.search(r'if factor > ([\d.]+) \{', src)
    if not m:
        raise TranslationError("super-sampling threshold not found")
    num, den = m.group(1).split('.')
    out += '/-- %s: super-sampling threshold `factor > %s` as numerator / denominator -/\n' % (f, m.group(1))
    out += 'def ssThresholdNum : Nat := %d\ndef ssThresholdDen : Nat := %d\n\n' % (int(num + den), 10 ** len(den))
    return out

def gen_convert(repo):
    f = 'src/change_components_type.rs'
    src = read(repo, f)
    m = re.search(r'#\[cfg\(not\(feature = "only_u8x4"\)\)\]\s*match src_pixel_type \{(.*?)\n    \}\n', src, re.S)
    if not m:
        raise TranslationError("change_type_of_pixel_components dispatch not found")
    rows = []
    for a in re.finditer(r'PixelType::(\w+) => map_dst!\(\s*(\w+),\s*dst_pixel_type,(.*?)\n        \),', m.group(1), re.S):
        srcn, srct, body = a.group(1), a.group(2), a.group(3)
        if srcn != srct:
            raise TranslationError("dispatch arm %s uses source type %s" % (srcn, srct))
        dsts = re.findall(r'\(PT::(\w+), (\w+)\)', body)
        for d1, d2 in dsts:
            if d1 != d2:
                raise TranslationError("dispatch %s -> %s uses type %s" % (srcn, d1, d2))
        rows.append((srcn, [d for d, _ in dsts]))
    if '_ => Err(MappingError::UnsupportedCombinationOfImageTypes)' not in src:
        raise TranslationError("map_dst! lost its rejecting default arm")
    if not re.search(r'if src_image\.width\(\) != dst_image\.width\(\) \|\| src_image\.height\(\) != dst_image\.height\(\) \{\s*return Err\(DifferentDimensionsError\);', src):
        raise TranslationError("change_type_of_pixel_components_typed lost its dimension check")
    out = '/-- %s: supported (source, destinations) pairs of change_type_of_pixel_components; everything else is rejected -/\n' % f
    out += 'def convertPairs : List (String × List String) := [\n%s]\n\n' % ',\n'.join(
        '  ("%s", %s)' % (s_, str(d).replace("'", '"')) for s_, d in rows)
    return out

def gen_cropf64(repo):
    """CroppedSrcImageView::crop and the guards of resize_typed, as the ordered list of
    (negated?, condition text, outcome) the hand-written float model mirrors."""
    f = 'src/crop_box.rs'
    src = read(repo, f)
    m = re.search(r'pub fn crop\(image_view: &\'a T, crop_box: CropBox\) -> Result<Self, CropBoxError> \{(.*?)\n        Ok\(Self \{', src, re.S)
    if not m:
        raise TranslationError("CroppedSrcImageView::crop not found")
    body = m.group(1)
    steps = []
    pos = 0
    for a in re.finditer(r'(let (\w+) = ([^;]+);)|(if (.*?)\s*\{\s*return Err\(CropBoxError::(\w+)\);\s*\})', body, re.S):
        if a.group(1):
            steps.append(('let', a.group(2), ' '.join(a.group(3).split())))
        else:
            steps.append(('guard', ' '.join(a.group(5).split()), a.group(6)))
    out = '/-- %s: CroppedSrcImageView::crop as a list of steps: ("let", name, expr) | ("guard", condition, error) -/\n' % f
    out += 'def cropF64Steps : List (String × String × String) := [\n%s]\n\n' % ',\n'.join(
        '  ("%s", "%s", "%s")' % st for st in steps)
    f = 'src/resizer.rs'
    src = read(repo, f)
    m = re.search(r'let crop_box = options\.get_crop_box\(src_view, dst_view\);\s*if (.*?)\{\s*// Do nothing.*?return Ok\(\(\)\);\s*\}\s*let cropped_src_view = CroppedSrcImageView::crop\(src_view, crop_box\)\?;\s*if copy_image\(&cropped_src_view, dst_view\)\.is_ok\(\)', src, re.S)
    if not m:
        raise TranslationError("resize_typed prologue (zero-size early-out, crop validation, copy fast path) changed shape")
    out += '/-- %s: zero-size early-out condition of resize_typed (evaluated before crop validation) -/\n' % f
    out += 'def resizeEarlyOut : String := "%s"\n\n' % ' '.join(m.group(1).split())
    return out

def gen_color(repo):
    out = ''
    f = 'src/color/mappers.rs'
    src = read(repo, f)
    rows = []
    for fn in ('gamma_into_linear', 'linear_into_gamma', 'srgb_to_linear', 'linear_to_srgb', 'create_gamma_22_mapper', 'create_srgb_mapper'):
        m = re.search(r'fn %s\([^)]*\) -> \w+ \{(.*?)\n\}' % fn, src, re.S)
        if not m:
            raise TranslationError("fn %s not found in %s" % (fn, f))
        rows.append((fn, ' '.join(m.group(1).split())))
    f2 = 'src/color/mod.rs'
    src = read(repo, f2)
    m = re.search(r'table\.iter_mut\(\)\.enumerate\(\)\.for_each\(\|\(input, output\)\| \{(.*?)\}\);', src, re.S)
    if not m:
        raise TranslationError("MappingTable::new body not found")
    rows.append(('table_entry', ' '.join(m.group(1).split())))
    conds = set(re.findall(r'if (\(i \+ 1\) % gap_step != 0) \{', src))
    if len(conds) != 1 or len(re.findall(r'gap_step', src)) < 4:
        raise TranslationError("gap condition of map_with_gaps changed")
    rows.append(('gap_condition', conds.pop()))
    m = re.search(r'pub fn map_image_typed<S, D>.*?match S::CountOfComponents::count\(\) \{(.*?)\n            \}', src, re.S)
    if not m:
        raise TranslationError("map_image_typed dispatch not found")
    rows.append(('gap_dispatch', ' '.join(re.sub(r'//[^\n]*', '', m.group(1)).split())))
    m = re.search(r'pub fn map_image_inplace_typed<S>.*?match S::CountOfComponents::count\(\) \{(.*?)\n            \}', src, re.S)
    if not m:
        raise TranslationError("map_image_inplace_typed dispatch not found")
    rows.append(('gap_dispatch_inplace', ' '.join(re.sub(r'//[^\n]*', '', m.group(1)).split())))
    if not re.search(r'if src_image\.width\(\) != dst_image\.width\(\) \|\| src_image\.height\(\) != dst_image\.height\(\) \{\s*return Err\(MappingError::DifferentDimensions\);', src):
        raise TranslationError("PixelComponentMapper::map lost its dimension check")
    out += '/-- %s, %s: source text of the transfer functions, of the table construction and of the alpha-gap logic -/\n' % (f, f2)
    out += 'def colorSources : List (String × String) := [\n%s]\n\n' % ',\n'.join(
        '  ("%s", "%s")' % (a, b.replace('"', '\\"')) for a, b in rows)
    m = re.search(r'match_img!\(\s*tables,\s*(\(PT::U8, U8, PT::U16, U16\),.*?)\)\s*\}', src, re.S)
    if not m:
        raise TranslationError("PixelComponentMapper::map dispatch not found")
    pairs = re.findall(r'\(PT::(\w+), (\w+), PT::(\w+), (\w+)\)', m.group(1))
    for a, b, c, d in pairs:
        if a != b or c != d:
            raise TranslationError("mapper dispatch pairs %s/%s" % (a, b))
    out += '/-- %s: (8-bit type, 16-bit type) rows of the mapper dispatch; all four depth combinations of a row are accepted -/\n' % f2
    out += 'def mapperRows : List (String × String) := [%s]\n\n' % ', '.join('("%s", "%s")' % (a, c) for a, _, c, _ in pairs)
    return out

def gen_fitcrop(repo):
    f = 'src/crop_box.rs'
    with open(os.path.join(repo, f)) as fh:
        src = fh.read()
    m = re.search(r'pub fn fit_src_into_dst_size\((.*?)\) -> Self \{(.*?)\n    \}\n\}', src, re.S)
    if not m:
        raise TranslationError("CropBox::fit_src_into_dst_size not found")
    body = re.sub(r'//[^\n]*', '', m.group(2))
    out = '/-- %s: body of CropBox::fit_src_into_dst_size (comments stripped, whitespace normalised) -/\n' % f
    out += 'def fitCropSource : String := "%s"\n\n' % ' '.join(body.split()).replace('"', '\\"')
    return out

def gen_simd_alpha(repo):
    out = ''
    rows = []
    for f, fn in (('src/alpha/u8x4/sse4.rs', 'divide_alpha_4_pixels'), ('src/alpha/u8x4/avx2.rs', 'divide_alpha_8_pixels'),
                  ('src/alpha/u8x2/sse4.rs', 'divide_alpha_8_pixels'), ('src/alpha/u8x2/avx2.rs', 'divide_alpha_16_pixels')):
        with open(os.path.join(repo, f)) as fh:
            src = fh.read()
        m = re.search(r'unsafe fn %s\(.*?\n\}' % fn, src, re.S)
        if not m:
            raise TranslationError("%s: fn %s not found" % (f, fn))
        body = re.sub(r'//[^\n]*', '', m.group(0))
        body = re.sub(r'/\*.*?\*/', '', body, flags=re.S)
        # the arithmetic skeleton: every arithmetic intrinsic in textual order, and the constants
        names = re.findall(r'_mm(?:256)?_(div_ps|mul_ps|cvtps_epi32|cvtepi32_ps|slli_epi16::<\d+>|srli_epi16::<\d+>|srli_epi32::<\d+>|mulhrs_epi16|mulhi_epu16|mullo_epi16|min_epu16|packus_epi16|add_epi16|sub_epi16)\b', body)
        consts = re.findall(r'_mm(?:256)?_(set1_ps|set1_epi16|set1_epi32)\(([^()]*(?:\([^()]*\))?[^()]*)\)', body)
        sk = ['%s(%s)' % (n, ' '.join(a.split())) for n, a in consts] + names
        rows.append((f + '::' + fn, ' '.join(sk)))
    out += '/-- arithmetic skeleton (intrinsics in order, with their immediates and constants) of the SIMD 8-bit divide_alpha lane kernels -/\n'
    out += 'def simdDiv8Skeleton : List (String × String) := [\n%s]\n\n' % ',\n'.join('  ("%s", "%s")' % (a, b.replace('"', '\\"')) for a, b in rows)
    # 16-bit lanes: two binary32 roundings (mul_ps by 65535.0, div_ps), min_ps, zero mask, cvtps_epi32
    rows = []
    for f, fn in (('src/alpha/u16x2/sse4.rs', 'divide_alpha_4_pixels'), ('src/alpha/u16x2/avx2.rs', 'divide_alpha_8_pixels'),
                  ('src/alpha/u16x4/sse4.rs', 'divide_alpha_2_pixels'), ('src/alpha/u16x4/avx2.rs', 'divide_alpha_4_pixels')):
        with open(os.path.join(repo, f)) as fh:
            src = fh.read()
        m = re.search(r'unsafe fn %s\(.*?\n\}' % fn, src, re.S)
        if not m:
            raise TranslationError("%s: fn %s not found" % (f, fn))
        body = re.sub(r'//[^\n]*', '', m.group(0))
        body = re.sub(r'/\*.*?\*/', '', body, flags=re.S)
        names = re.findall(r'_mm(?:256)?_(div_ps|mul_ps|add_ps|sub_ps|rcp_ps|min_ps|max_ps|and_ps|andnot_ps|or_ps|cmpneq_ps|cmpeq_ps|cmpgt_ps|cmplt_ps|cmp_ps::<\w+>|cvtps_epi32|cvttps_epi32|cvtepi32_ps|packus_epi32|packs_epi32|srli_epi32::<\d+>|slli_epi32::<\d+>|add_epi32|sub_epi32|mullo_epi32)(?!\w)', body)
        consts = re.findall(r'_mm(?:256)?_(set1_ps)\(([^()]*(?:\([^()]*\))?[^()]*)\)', body)
        # the order of independent statements (which half is computed first) is immaterial: keep the multiset per kind, sorted
        sk = sorted('%s(%s)' % (n, ' '.join(a.split())) for n, a in consts) + sorted(n.replace('cmp_ps::<_CMP_NEQ_UQ>', 'cmpneq_ps') for n in names)
        rows.append((f + '::' + fn, ' '.join(sk)))
    out += '/-- arithmetic intrinsics (sorted multiset, with the float constants) of the SIMD 16-bit divide_alpha lane kernels -/\n'
    out += 'def simdDiv16Skeleton : List (String × String) := [\n%s]\n\n' % ',\n'.join('  ("%s", "%s")' % (a, b.replace('"', '\\"')) for a, b in rows)
    return out

def gen_simd_kernels(repo):
    """Shuffle masks and intrinsic skeleton of one fully modelled SIMD kernel:
    src/convolution/u8x4/sse4.rs::horiz_convolution_one_row (Fir.Model.SimdU8x4, Fir.C02.u8x4_sse4_one_row_eq_portable)."""
    f = 'src/convolution/u8x4/sse4.rs'
    with open(os.path.join(repo, f)) as fh:
        src = fh.read()
    m = re.search(r'unsafe fn horiz_convolution_one_row<const PRECISION: i32>\(.*?\n\}', src, re.S)
    if not m:
        raise TranslationError("%s: horiz_convolution_one_row not found" % f)
    body = re.sub(r'//[^\n]*', '', m.group(0))
    masks = []
    for a in re.finditer(r'let (sh\d+) = _mm_set_epi8\(([^;]*?)\);', body, re.S):
        vals = [int(x) for x in a.group(2).replace('\n', ' ').split(',') if x.strip()]
        if len(vals) != 16:
            raise TranslationError("%s: mask %s does not have 16 entries" % (f, a.group(1)))
        masks.append((a.group(1), list(reversed(vals))))        # _mm_set_epi8 lists byte 15 first
    if [n for n, _ in masks] != ['sh1', 'sh2', 'sh3', 'sh4', 'sh5', 'sh6', 'sh7']:
        raise TranslationError("%s: expected the masks sh1 .. sh7, found %s" % (f, [n for n, _ in masks]))
    out = ''
    for n, v in masks:
        out += '/-- %s: horiz_convolution_one_row: shuffle mask %s, byte 0 first -/\n' % (f, n)
        out += 'def u8x4_sse4_%s : List Int := [%s]\n\n' % (n, ', '.join(str(x) if x >= 0 else '(%d)' % x for x in v))
    # skeleton: the statements of the function as (intrinsic or helper, arguments) in textual order
    calls = re.findall(r'\b(_mm_\w+(?:::<\w+>)?|simd_utils::\w+|chunks_exact|remainder|first)\(([^()]*(?:\([^()]*\)[^()]*)*)\)', body)
    sk = ' ; '.join('%s(%s)' % (c, ' '.join(a.split())) for c, a in calls if not c.startswith('_mm_set_epi8'))
    out += '/-- %s: horiz_convolution_one_row: every intrinsic / helper call with its arguments, in textual order -/\n' % f
    out += 'def u8x4_sse4_one_row_skeleton : String := "%s"\n\n' % sk.replace('"', '\\"')
    # the four-row kernel of the same file
    m = re.search(r'unsafe fn horiz_convolution_four_rows<const PRECISION: i32>\(.*?\n\}', src, re.S)
    if not m:
        raise TranslationError("%s: horiz_convolution_four_rows not found" % f)
    body = re.sub(r'//[^\n]*', '', m.group(0))
    masks = []
    for a in re.finditer(r'let (mask\w*) = _mm_set_epi8\(([^;]*?)\);', body, re.S):
        vals = [int(x) for x in a.group(2).replace('\n', ' ').split(',') if x.strip()]
        if len(vals) != 16:
            raise TranslationError("%s: mask %s does not have 16 entries" % (f, a.group(1)))
        masks.append((a.group(1), list(reversed(vals))))
    if [n for n, _ in masks] != ['mask_lo', 'mask_hi', 'mask']:
        raise TranslationError("%s: expected the masks mask_lo, mask_hi, mask, found %s" % (f, [n for n, _ in masks]))
    for n, v in masks:
        out += '/-- %s: horiz_convolution_four_rows: shuffle mask %s, byte 0 first -/\n' % (f, n)
        out += 'def u8x4_sse4_four_%s : List Int := [%s]\n\n' % (n, ', '.join(str(x) if x >= 0 else '(%d)' % x for x in v))
    calls = re.findall(r'\b(_mm_\w+(?:::<\w+>)?|simd_utils::\w+|chunks_exact|remainder|first)\(([^()]*(?:\([^()]*\)[^()]*)*)\)', body)
    sk = ' ; '.join('%s(%s)' % (c, ' '.join(a.split())) for c, a in calls if not c.startswith('_mm_set_epi8'))
    out += '/-- %s: horiz_convolution_four_rows: every intrinsic / helper call with its arguments, in textual order -/\n' % f
    out += 'def u8x4_sse4_four_rows_skeleton : String := "%s"\n\n' % sk.replace('"', '\\"')
    # the AVX2 four-row kernel: two rows per 256-bit register, one per 128-bit half; masks with two halves
    f = 'src/convolution/u8x4/avx2.rs'
    with open(os.path.join(repo, f)) as fh:
        src = fh.read()
    m = re.search(r'unsafe fn horiz_convolution_four_rows<const PRECISION: i32>\(.*?\n\}', src, re.S)
    if not m:
        raise TranslationError("%s: horiz_convolution_four_rows not found" % f)
    body = re.sub(r'//[^\n]*', '', m.group(0))
    masks = []
    for a in re.finditer(r'let (sh\d+) = _mm256_set_epi8\(([^;]*?)\);', body, re.S):
        vals = [int(x) for x in a.group(2).replace('\n', ' ').split(',') if x.strip()]
        if len(vals) != 32:
            raise TranslationError("%s: mask %s does not have 32 entries" % (f, a.group(1)))
        masks.append((a.group(1), list(reversed(vals))))
    if [n for n, _ in masks] != ['sh1', 'sh2']:
        raise TranslationError("%s: expected the masks sh1, sh2, found %s" % (f, [n for n, _ in masks]))
    for n, v in masks:
        for half, part in (('lo', v[:16]), ('hi', v[16:])):
            out += '/-- %s: horiz_convolution_four_rows: %s 128-bit half of the shuffle mask %s, byte 0 first -/\n' % (f, 'low' if half == 'lo' else 'high', n)
            out += 'def u8x4_avx2_four_%s_%s : List Int := [%s]\n\n' % (n, half, ', '.join(str(x) if x >= 0 else '(%d)' % x for x in part))
    calls = re.findall(r'\b(_mm(?:256)?_\w+(?:::<\w+>)?|simd_utils::\w+|chunks_exact|remainder|first)\(', body)
    sk = ' '.join(c for c in calls if not c.endswith('set_epi8'))
    out += '/-- %s: horiz_convolution_four_rows: every intrinsic / helper called, in textual order -/\n' % f
    out += 'def u8x4_avx2_four_rows_skeleton : String := "%s"\n\n' % sk
    # the AVX2 one-row kernel: 8 and 4 coefficients per step in a 256-bit register (two half accumulators that are
    # added at the end), then the 128-bit 2 / 1 steps
    m = re.search(r'unsafe fn horiz_convolution_one_row<const PRECISION: i32>\(.*?\n\}', src, re.S)
    if not m:
        raise TranslationError("%s: horiz_convolution_one_row not found" % f)
    body = re.sub(r'//[^\n]*', '', m.group(0))
    masks = []
    for a in re.finditer(r'let (sh\d+) = _mm256_set_epi8\(([^;]*?)\);', body, re.S):
        vals = [int(x) for x in a.group(2).replace('\n', ' ').split(',') if x.strip()]
        if len(vals) != 32:
            raise TranslationError("%s: mask %s does not have 32 entries" % (f, a.group(1)))
        masks.append((a.group(1), list(reversed(vals))))
    if [n for n, _ in masks] != ['sh1', 'sh2', 'sh3', 'sh4', 'sh5', 'sh6']:
        raise TranslationError("%s: expected the 256-bit masks sh1 .. sh6, found %s" % (f, [n for n, _ in masks]))
    for n, v in masks:
        for half, part in (('lo', v[:16]), ('hi', v[16:])):
            out += '/-- %s: horiz_convolution_one_row: %s 128-bit half of the shuffle mask %s, byte 0 first -/\n' % (f, 'low' if half == 'lo' else 'high', n)
            out += 'def u8x4_avx2_one_%s_%s : List Int := [%s]\n\n' % (n, half, ', '.join(str(x) if x >= 0 else '(%d)' % x for x in part))
    a = re.search(r'let sh7 = _mm_set_epi8\(([^;]*?)\);', body, re.S)
    if not a:
        raise TranslationError("%s: 128-bit mask sh7 not found" % f)
    vals = list(reversed([int(x) for x in a.group(1).replace('\n', ' ').split(',') if x.strip()]))
    out += '/-- %s: horiz_convolution_one_row: shuffle mask sh7, byte 0 first -/\n' % f
    out += 'def u8x4_avx2_one_sh7 : List Int := [%s]\n\n' % ', '.join(str(x) if x >= 0 else '(%d)' % x for x in vals)
    calls = re.findall(r'\b(_mm(?:256)?_\w+(?:::<\w+>)?|simd_utils::\w+|chunks_exact|remainder|first)\(([^()]*(?:\([^()]*\)[^()]*)*)\)', body)
    sk = ' ; '.join('%s(%s)' % (c, ' '.join(a.split())) for c, a in calls if not c.endswith('set_epi8'))
    out += '/-- %s: horiz_convolution_one_row: every intrinsic / helper call with its arguments, in textual order -/\n' % f
    out += 'def u8x4_avx2_one_row_skeleton : String := "%s"\n\n' % sk.replace('"', '\\"')
    # U8x3 (RGB8), SSE4.1, one-row kernel: loads of 16 / 8 bytes that must not run past the row (data-dependent loop exits)
    f = 'src/convolution/u8x3/sse4.rs'
    with open(os.path.join(repo, f)) as fh:
        src3 = fh.read()
    m = re.search(r'unsafe fn horiz_convolution_one_row<const PRECISION: i32>\(.*?\n\}', src3, re.S)
    if not m:
        raise TranslationError("%s: horiz_convolution_one_row not found" % f)
    body = re.sub(r'//[^\n]*', '', m.group(0))
    body = re.sub(r'/\*.*?\*/', '', body, flags=re.S)
    masks = []
    for a in re.finditer(r'let (\w+_sh\d+) = _mm_set_epi8\(([^;]*?)\);', body, re.S):
        vals = [int(x) for x in a.group(2).replace('\n', ' ').split(',') if x.strip()]
        if len(vals) != 16:
            raise TranslationError("%s: mask %s does not have 16 entries" % (f, a.group(1)))
        masks.append((a.group(1), list(reversed(vals))))
    if [n for n, _ in masks] != ['pix_sh1', 'coef_sh1', 'pix_sh2', 'coef_sh2']:
        raise TranslationError("%s: expected the masks pix_sh1, coef_sh1, pix_sh2, coef_sh2, found %s" % (f, [n for n, _ in masks]))
    for n, v in masks:
        out += '/-- %s: horiz_convolution_one_row: shuffle mask %s, byte 0 first -/\n' % (f, n)
        out += 'def u8x3_sse4_%s : List Int := [%s]\n\n' % (n, ', '.join(str(x) if x >= 0 else '(%d)' % x for x in v))
    calls = re.findall(r'\b(_mm_\w+(?:::<\w+>)?|simd_utils::\w+|chunks_exact|saturating_sub|split_at)\(([^()]*(?:\([^()]*\)[^()]*)*)\)', body)
    sk = ' ; '.join('%s(%s)' % (c, ' '.join(a.split())) for c, a in calls if not c.endswith('set_epi8'))
    conds = re.findall(r'\b(if x (?:<|>=) max_x)', body)
    out += '/-- %s: horiz_convolution_one_row: every intrinsic / helper call with its arguments, in textual order, and the loop guards -/\n' % f
    out += 'def u8x3_sse4_one_row_skeleton : String := "%s | %s"\n\n' % (sk.replace('"', '\\"'), ' ; '.join(conds))
    # the four-row kernel of the same file: the same loop guards, per row the same loads; coefficient pairs are cloned
    m = re.search(r'unsafe fn horiz_convolution_four_rows<const PRECISION: i32>\(.*?\n\}', src3, re.S)
    if not m:
        raise TranslationError("%s: horiz_convolution_four_rows not found" % f)
    body = re.sub(r'//[^\n]*', '', m.group(0))
    body = re.sub(r'/\*.*?\*/', '', body, flags=re.S)
    masks = []
    for a in re.finditer(r'let (sh_\w+) = _mm_set_epi8\(([^;]*?)\);', body, re.S):
        vals = [int(x) for x in a.group(2).replace('\n', ' ').split(',') if x.strip()]
        if len(vals) != 16:
            raise TranslationError("%s: mask %s does not have 16 entries" % (f, a.group(1)))
        masks.append((a.group(1), list(reversed(vals))))
    if [n for n, _ in masks] != ['sh_lo', 'sh_hi']:
        raise TranslationError("%s: expected the masks sh_lo, sh_hi, found %s" % (f, [n for n, _ in masks]))
    for n, v in masks:
        out += '/-- %s: horiz_convolution_four_rows: shuffle mask %s, byte 0 first -/\n' % (f, n)
        out += 'def u8x3_sse4_four_%s : List Int := [%s]\n\n' % (n, ', '.join(str(x) if x >= 0 else '(%d)' % x for x in v))
    calls = re.findall(r'\b(_mm_\w+(?:::<\w+>)?|simd_utils::\w+|chunks_exact|saturating_sub|split_at)\(([^()]*(?:\([^()]*\)[^()]*)*)\)', body)
    sk = ' ; '.join('%s(%s)' % (c, ' '.join(a.split())) for c, a in calls if not c.endswith('set_epi8'))
    conds = re.findall(r'\b(if x (?:<|>=) max_x)', body)
    out += '/-- %s: horiz_convolution_four_rows: every intrinsic / helper call with its arguments, in textual order, and the loop guards -/\n' % f
    out += 'def u8x3_sse4_four_rows_skeleton : String := "%s | %s"\n\n' % (sk.replace('"', '\\"'), ' ; '.join(conds))
    # single-channel 8-bit images, SSE4.1: no masks (`_mm_cvtepu8_epi16`), both kernels pinned by their call sequences
    f1 = 'src/convolution/u8x1/sse4.rs'
    with open(os.path.join(repo, f1)) as fh:
        src1 = fh.read()
    for fn in ('horiz_convolution_one_row', 'horiz_convolution_four_rows'):
        m = re.search(r'unsafe fn %s\(.*?\n\}' % fn, src1, re.S)
        if not m:
            raise TranslationError("%s: %s not found" % (f1, fn))
        body = re.sub(r'//[^\n]*', '', m.group(0))
        calls = re.findall(r'\b(_mm_\w+(?:::<\w+>)?|simd_utils::\w+|chunks_exact|remainder|next|sum|normalizer\.clip|normalizer\.precision)\(([^()]*(?:\([^()]*\)[^()]*)*)\)', body)
        sk = ' ; '.join('%s(%s)' % (c, ' '.join(a.split())) for c, a in calls)
        sk += ' | ' + ' ; '.join(' '.join(x.split()) for x in re.findall(r'(let initial = [^;]*|let mut buf = [^;]*)', body))
        out += '/-- %s: %s: every intrinsic / helper call with its arguments, in textual order, and the rounding constant -/\n' % (f1, fn)
        out += 'def u8x1_sse4_%s_skeleton : String := "%s"\n\n' % ('one_row' if fn.endswith('one_row') else 'four_rows', sk.replace('"', '\\"'))
    # two-channel 8-bit images (U8x2), SSE4.1: masks of both kernels, call sequences, the saturating final addition
    f2 = 'src/convolution/u8x2/sse4.rs'
    with open(os.path.join(repo, f2)) as fh:
        src2 = fh.read()
    for fn, expect, tag in (('horiz_convolution_four_rows', ['sh1', 'sh2'], 'four'),
                            ('horiz_convolution_one_row', ['pix_sh1', 'coeff_sh1', 'pix_sh2', 'coeff_sh2', 'pix_sh3'], 'one')):
        m = re.search(r'unsafe fn %s\(.*?\n\}' % fn, src2, re.S)
        if not m:
            raise TranslationError("%s: %s not found" % (f2, fn))
        body = re.sub(r'//[^\n]*', '', m.group(0))
        body = re.sub(r'/\*.*?\*/', '', body, flags=re.S)
        masks = []
        for a in re.finditer(r'let (\w*sh\d+) = _mm_set_epi8\(([^;]*?)\);', body, re.S):
            vals = [int(x) for x in a.group(2).replace('\n', ' ').split(',') if x.strip()]
            if len(vals) != 16:
                raise TranslationError("%s: mask %s does not have 16 entries" % (f2, a.group(1)))
            masks.append((a.group(1), list(reversed(vals))))
        if [n for n, _ in masks] != expect:
            raise TranslationError("%s: %s: expected the masks %s, found %s" % (f2, fn, expect, [n for n, _ in masks]))
        for n, v in masks:
            out += '/-- %s: %s: shuffle mask %s, byte 0 first -/\n' % (f2, fn, n)
            out += 'def u8x2_sse4_%s_%s : List Int := [%s]\n\n' % (tag, n, ', '.join(str(x) if x >= 0 else '(%d)' % x for x in v))
        calls = re.findall(r'\b(_mm_\w+(?:::<\w+>)?|simd_utils::\w+|chunks_exact|remainder|first|is_empty|saturating_add|set_dst_pixel|normalizer\.clip|normalizer\.precision)\(([^()]*(?:\([^()]*\)[^()]*)*)\)', body)
        sk = ' ; '.join('%s(%s)' % (c, ' '.join(a.split())) for c, a in calls if not c.endswith('set_epi8'))
        extra = ''
        if tag == 'one':
            # the scalar gathering of the last 1..3 pixels and the final lane pairing
            extra = ' | ' + ' ; '.join(' '.join(x.split()) for x in re.findall(r'(pixels\[i \* 2(?: \+ 1)?\] = pixel\[\d\] as i16|coeffs\[i\] = coeff|let [al]32 = [^;]*|dst_row\.get_unchecked_mut\(dst_x\)\.0 = \[[^\]]*\])', body))
        out += '/-- %s: %s: every intrinsic / helper call with its arguments, in textual order -/\n' % (f2, fn)
        out += 'def u8x2_sse4_%s_skeleton : String := "%s%s"\n\n' % ('four_rows' if tag == 'four' else 'one_row', sk.replace('"', '\\"'), extra.replace('"', '\\"'))
    m = re.search(r'unsafe fn set_dst_pixel\(.*?\n\}', src2, re.S)
    if not m:
        raise TranslationError("%s: set_dst_pixel not found" % f2)
    body = re.sub(r'//[^\n]*', '', m.group(0))
    stm = [' '.join(x.split()) for x in body[body.index('{') + 1:body.rindex('}')].split(';') if x.strip()]
    out += '/-- %s: set_dst_pixel: its statements -/\n' % f2
    out += 'def u8x2_sse4_set_dst_pixel : String := "%s"\n\n' % ' ; '.join(stm).replace('"', '\\"')
    # single-channel 16-bit images (U16), SSE4.1: four masks per kernel (other names in the four-row kernel), call sequences
    f16h = 'src/convolution/u16x1/sse4.rs'
    with open(os.path.join(repo, f16h)) as fh:
        src16h = fh.read()
    for fn, expect, tag in (('horiz_convolution_one_row', ['l01_shuffle', 'l23_shuffle', 'l45_shuffle', 'l67_shuffle'], ''),
                            ('horiz_convolution_four_rows', ['l0l1_shuffle', 'l2l3_shuffle', 'l4l5_shuffle', 'l6l7_shuffle'], 'four_')):
        m = re.search(r'unsafe fn %s\(.*?\n\}' % fn, src16h, re.S)
        if not m:
            raise TranslationError("%s: %s not found" % (f16h, fn))
        body = re.sub(r'//[^\n]*', '', m.group(0))
        body = re.sub(r'/\*.*?\*/', '', body, flags=re.S)
        masks = []
        for a in re.finditer(r'let (\w+_shuffle) = _mm_set_epi8\(([^;]*?)\);', body, re.S):
            vals = [int(x) for x in a.group(2).replace('\n', ' ').split(',') if x.strip()]
            if len(vals) != 16:
                raise TranslationError("%s: mask %s does not have 16 entries" % (f16h, a.group(1)))
            masks.append((a.group(1), list(reversed(vals))))
        if [n for n, _ in masks] != expect:
            raise TranslationError("%s: %s: expected the masks %s, found %s" % (f16h, fn, expect, [n for n, _ in masks]))
        for (n, v), short in zip(masks, ['l01', 'l23', 'l45', 'l67']):
            out += '/-- %s: %s: shuffle mask %s, byte 0 first -/\n' % (f16h, fn, n)
            out += 'def u16x1_sse4_%s%s : List Int := [%s]\n\n' % (tag, short, ', '.join(str(x) if x >= 0 else '(%d)' % x for x in v))
        calls = re.findall(r'\b(_mm_\w+(?:::<\w+>)?|simd_utils::\w+|chunks_exact|remainder|first|get_unchecked|sum::<i64>|normalizer\.clip|normalizer\.precision)\(([^()]*(?:\([^()]*\)[^()]*)*)\)', body)
        sk = ' ; '.join('%s(%s)' % (c, ' '.join(a.split())) for c, a in calls if not c.endswith('set_epi8'))
        out += '/-- %s: %s: every intrinsic / helper call with its arguments, in textual order -/\n' % (f16h, fn)
        out += 'def u16x1_sse4_%s_skeleton : String := "%s"\n\n' % ('four_rows' if tag else 'one_row', sk.replace('"', '\\"'))
    # four-channel 16-bit images (U16x4), SSE4.1: masks rg0 / rg1 / ba0 / ba1 of both kernels, call sequences
    f164 = 'src/convolution/u16x4/sse4.rs'
    with open(os.path.join(repo, f164)) as fh:
        src164 = fh.read()
    for fn, tag in (('horiz_convolution_one_row', ''), ('horiz_convolution_four_rows', 'four_')):
        m = re.search(r'unsafe fn %s\(.*?\n\}' % fn, src164, re.S)
        if not m:
            raise TranslationError("%s: %s not found" % (f164, fn))
        body = re.sub(r'//[^\n]*', '', m.group(0))
        body = re.sub(r'/\*.*?\*/', '', body, flags=re.S)
        masks = []
        for a in re.finditer(r'let (\w+)_shuffle = _mm_set_epi8\(([^;]*?)\);', body, re.S):
            vals = [int(x) for x in a.group(2).replace('\n', ' ').split(',') if x.strip()]
            if len(vals) != 16:
                raise TranslationError("%s: mask %s does not have 16 entries" % (f164, a.group(1)))
            masks.append((a.group(1), list(reversed(vals))))
        if [n for n, _ in masks] != ['rg0', 'rg1', 'ba0', 'ba1']:
            raise TranslationError("%s: %s: expected the masks rg0, rg1, ba0, ba1, found %s" % (f164, fn, [n for n, _ in masks]))
        for n, v in masks:
            out += '/-- %s: %s: shuffle mask %s_shuffle, byte 0 first -/\n' % (f164, fn, n)
            out += 'def u16x4_sse4_%s%s : List Int := [%s]\n\n' % (tag, n, ', '.join(str(x) if x >= 0 else '(%d)' % x for x in v))
        calls = re.findall(r'\b(_mm_\w+(?:::<\w+>)?|simd_utils::\w+|chunks_exact|remainder|first|normalizer\.clip|normalizer\.precision)\(([^()]*(?:\([^()]*\)[^()]*)*)\)', body)
        sk = ' ; '.join('%s(%s)' % (c, ' '.join(a.split())) for c, a in calls if not c.endswith('set_epi8'))
        out += '/-- %s: %s: every intrinsic / helper call with its arguments, in textual order -/\n' % (f164, fn)
        out += 'def u16x4_sse4_%s_skeleton : String := "%s"\n\n' % ('four_rows' if tag else 'one_row', sk.replace('"', '\\"'))
    # two-channel 16-bit images (U16x2), SSE4.1: masks p0 .. p3 of both kernels, call sequences
    f162 = 'src/convolution/u16x2/sse4.rs'
    with open(os.path.join(repo, f162)) as fh:
        src162 = fh.read()
    for fn, tag in (('horiz_convolution_one_row', ''), ('horiz_convolution_four_rows', 'four_')):
        m = re.search(r'unsafe fn %s\(.*?\n\}' % fn, src162, re.S)
        if not m:
            raise TranslationError("%s: %s not found" % (f162, fn))
        body = re.sub(r'//[^\n]*', '', m.group(0))
        body = re.sub(r'/\*.*?\*/', '', body, flags=re.S)
        masks = []
        for a in re.finditer(r'let (\w+)_shuffle = _mm_set_epi8\(([^;]*?)\);', body, re.S):
            vals = [int(x) for x in a.group(2).replace('\n', ' ').split(',') if x.strip()]
            if len(vals) != 16:
                raise TranslationError("%s: mask %s does not have 16 entries" % (f162, a.group(1)))
            masks.append((a.group(1), list(reversed(vals))))
        if [n for n, _ in masks] != ['p0', 'p1', 'p2', 'p3']:
            raise TranslationError("%s: %s: expected the masks p0 .. p3, found %s" % (f162, fn, [n for n, _ in masks]))
        for n, v in masks:
            out += '/-- %s: %s: shuffle mask %s_shuffle, byte 0 first -/\n' % (f162, fn, n)
            out += 'def u16x2_sse4_%s%s : List Int := [%s]\n\n' % (tag, n, ', '.join(str(x) if x >= 0 else '(%d)' % x for x in v))
        calls = re.findall(r'\b(_mm_\w+(?:::<\w+>)?|simd_utils::\w+|chunks_exact|remainder|first|normalizer\.clip|normalizer\.precision)\(([^()]*(?:\([^()]*\)[^()]*)*)\)', body)
        sk = ' ; '.join('%s(%s)' % (c, ' '.join(a.split())) for c, a in calls if not c.endswith('set_epi8'))
        out += '/-- %s: %s: every intrinsic / helper call with its arguments, in textual order -/\n' % (f162, fn)
        out += 'def u16x2_sse4_%s_skeleton : String := "%s"\n\n' % ('four_rows' if tag else 'one_row', sk.replace('"', '\\"'))
    # three-channel 16-bit images (U16x3), SSE4.1: masks rg0 / rg1 / bb of both kernels, call sequences and the width guard
    f163 = 'src/convolution/u16x3/sse4.rs'
    with open(os.path.join(repo, f163)) as fh:
        src163 = fh.read()
    for fn, tag in (('horiz_convolution_one_row', ''), ('horiz_convolution_four_rows', 'four_')):
        m = re.search(r'unsafe fn %s\(.*?\n\}' % fn, src163, re.S)
        if not m:
            raise TranslationError("%s: %s not found" % (f163, fn))
        body = re.sub(r'//[^\n]*', '', m.group(0))
        body = re.sub(r'/\*.*?\*/', '', body, flags=re.S)
        masks = []
        for a in re.finditer(r'let (\w+)_shuffle = _mm_set_epi8\(([^;]*?)\);', body, re.S):
            vals = [int(x) for x in a.group(2).replace('\n', ' ').split(',') if x.strip()]
            if len(vals) != 16:
                raise TranslationError("%s: mask %s does not have 16 entries" % (f163, a.group(1)))
            masks.append((a.group(1), list(reversed(vals))))
        if [n for n, _ in masks] != ['rg0', 'rg1', 'bb']:
            raise TranslationError("%s: %s: expected the masks rg0, rg1, bb, found %s" % (f163, fn, [n for n, _ in masks]))
        for n, v in masks:
            out += '/-- %s: %s: shuffle mask %s_shuffle, byte 0 first -/\n' % (f163, fn, n)
            out += 'def u16x3_sse4_%s%s : List Int := [%s]\n\n' % (tag, n, ', '.join(str(x) if x >= 0 else '(%d)' % x for x in v))
        calls = re.findall(r'\b(_mm_\w+(?:::<\w+>)?|simd_utils::\w+|chunks_exact|remainder|get_unchecked|normalizer\.clip|normalizer\.precision)\(([^()]*(?:\([^()]*\)[^()]*)*)\)', body)
        sk = ' ; '.join('%s(%s)' % (c, ' '.join(a.split())) for c, a in calls if not c.endswith('set_epi8'))
        guards = [' '.join(x.split()) for x in re.findall(r'(let end_x = [^;]*|if width - end_x >= \d+|let width = [^;]*|for &k in coeffs)', body)]
        out += '/-- %s: %s: every intrinsic / helper call with its arguments, in textual order, and the width guard -/\n' % (f163, fn)
        out += 'def u16x3_sse4_%s_skeleton : String := "%s | %s"\n\n' % ('four_rows' if tag else 'one_row', sk.replace('"', '\\"'), ' ; '.join(guards))
    # RGBA16 on AVX2: both kernels; every 256-bit mask by halves (a 256-bit shuffle acts on the two 128-bit halves independently)
    f164a = 'src/convolution/u16x4/avx2.rs'
    with open(os.path.join(repo, f164a)) as fh:
        src164a = fh.read()
    for fn, expect, tag in (('horiz_convolution_one_row', ['rg02', 'rg13', 'ba02', 'ba13'], 'one'),
                            ('horiz_convolution_four_rows', ['rg0', 'rg1', 'ba0', 'ba1'], 'four')):
        m = re.search(r'unsafe fn %s\(.*?\n\}' % fn, src164a, re.S)
        if not m:
            raise TranslationError("%s: %s not found" % (f164a, fn))
        body = re.sub(r'//[^\n]*', '', m.group(0))
        body = re.sub(r'/\*.*?\*/', '', body, flags=re.S)
        masks = []
        for a in re.finditer(r'let (\w+)_shuffle = _mm256_set_epi8\(([^;]*?)\);', body, re.S):
            vals = [int(x) for x in a.group(2).replace('\n', ' ').split(',') if x.strip()]
            if len(vals) != 32:
                raise TranslationError("%s: mask %s does not have 32 entries" % (f164a, a.group(1)))
            masks.append((a.group(1), list(reversed(vals))))
        if [n for n, _ in masks] != expect:
            raise TranslationError("%s: %s: expected the masks %s, found %s" % (f164a, fn, expect, [n for n, _ in masks]))
        for n, v in masks:
            for half, part in (('lo', v[:16]), ('hi', v[16:])):
                out += '/-- %s: %s: %s 128-bit half of the shuffle mask %s_shuffle, byte 0 first -/\n' % (f164a, fn, 'low' if half == 'lo' else 'high', n)
                out += 'def u16x4_avx2_%s_%s_%s : List Int := [%s]\n\n' % (tag, n, half, ', '.join(str(x) if x >= 0 else '(%d)' % x for x in part))
        calls = re.findall(r'\b(_mm(?:256)?_\w+(?:::<\w+>)?|simd_utils::\w+|chunks_exact|remainder|first|normalizer\.clip|normalizer\.precision)\(([^()]*(?:\([^()]*\)[^()]*)*)\)', body)
        sk = ' ; '.join('%s(%s)' % (c, ' '.join(a.split())) for c, a in calls if not c.endswith('set_epi8'))
        out += '/-- %s: %s: every intrinsic / helper call with its arguments, in textual order -/\n' % (f164a, fn)
        out += 'def u16x4_avx2_%s_skeleton : String := "%s"\n\n' % ('four_rows' if tag == 'four' else 'one_row', sk.replace('"', '\\"'))
    # LA16 on AVX2: both kernels; every 256-bit mask by halves
    f162a = 'src/convolution/u16x2/avx2.rs'
    with open(os.path.join(repo, f162a)) as fh:
        src162a = fh.read()
    for fn, tag in (('horiz_convolution_one_row', 'one'), ('horiz_convolution_four_rows', 'four')):
        m = re.search(r'unsafe fn %s\(.*?\n\}' % fn, src162a, re.S)
        if not m:
            raise TranslationError("%s: %s not found" % (f162a, fn))
        body = re.sub(r'//[^\n]*', '', m.group(0))
        body = re.sub(r'/\*.*?\*/', '', body, flags=re.S)
        masks = []
        for a in re.finditer(r'let (\w+)_shuffle = _mm256_set_epi8\(([^;]*?)\);', body, re.S):
            vals = [int(x) for x in a.group(2).replace('\n', ' ').split(',') if x.strip()]
            if len(vals) != 32:
                raise TranslationError("%s: mask %s does not have 32 entries" % (f162a, a.group(1)))
            masks.append((a.group(1), list(reversed(vals))))
        if [n for n, _ in masks] != ['p0', 'p1', 'p2', 'p3']:
            raise TranslationError("%s: %s: expected the masks p0 .. p3, found %s" % (f162a, fn, [n for n, _ in masks]))
        for n, v in masks:
            for half, part in (('lo', v[:16]), ('hi', v[16:])):
                out += '/-- %s: %s: %s 128-bit half of the shuffle mask %s_shuffle, byte 0 first -/\n' % (f162a, fn, 'low' if half == 'lo' else 'high', n)
                out += 'def u16x2_avx2_%s_%s_%s : List Int := [%s]\n\n' % (tag, n, half, ', '.join(str(x) if x >= 0 else '(%d)' % x for x in part))
        calls = re.findall(r'\b(_mm(?:256)?_\w+(?:::<\w+>)?|simd_utils::\w+|chunks_exact|remainder|first|normalizer\.clip|normalizer\.precision)\(([^()]*(?:\([^()]*\)[^()]*)*)\)', body)
        sk = ' ; '.join('%s(%s)' % (c, ' '.join(a.split())) for c, a in calls if not c.endswith('set_epi8'))
        out += '/-- %s: %s: every intrinsic / helper call with its arguments, in textual order -/\n' % (f162a, fn)
        out += 'def u16x2_avx2_%s_skeleton : String := "%s"\n\n' % ('four_rows' if tag == 'four' else 'one_row', sk.replace('"', '\\"'))
    # U16 on AVX2: both kernels; every 256-bit mask by halves
    f161a = 'src/convolution/u16x1/avx2.rs'
    with open(os.path.join(repo, f161a)) as fh:
        src161a = fh.read()
    for fn, tag in (('horiz_convolution_one_row', 'one'), ('horiz_convolution_four_rows', 'four')):
        m = re.search(r'unsafe fn %s\(.*?\n\}' % fn, src161a, re.S)
        if not m:
            raise TranslationError("%s: %s not found" % (f161a, fn))
        body = re.sub(r'//[^\n]*', '', m.group(0))
        body = re.sub(r'/\*.*?\*/', '', body, flags=re.S)
        masks = []
        for a in re.finditer(r'let (\w+)_shuffle = _mm256_set_epi8\(([^;]*?)\);', body, re.S):
            vals = [int(x) for x in a.group(2).replace('\n', ' ').split(',') if x.strip()]
            if len(vals) != 32:
                raise TranslationError("%s: mask %s does not have 32 entries" % (f161a, a.group(1)))
            masks.append((a.group(1), list(reversed(vals))))
        if [n for n, _ in masks] != ['l0l1', 'l2l3', 'l4l5', 'l6l7']:
            raise TranslationError("%s: %s: expected the masks l0l1 .. l6l7, found %s" % (f161a, fn, [n for n, _ in masks]))
        for (n, v), short in zip(masks, ['l01', 'l23', 'l45', 'l67']):
            for half, part in (('lo', v[:16]), ('hi', v[16:])):
                out += '/-- %s: %s: %s 128-bit half of the shuffle mask %s_shuffle, byte 0 first -/\n' % (f161a, fn, 'low' if half == 'lo' else 'high', n)
                out += 'def u16x1_avx2_%s_%s_%s : List Int := [%s]\n\n' % (tag, short, half, ', '.join(str(x) if x >= 0 else '(%d)' % x for x in part))
        calls = re.findall(r'\b(_mm(?:256)?_\w+(?:::<\w+>)?|simd_utils::\w+|chunks_exact|remainder|get_unchecked|sum::<i64>|normalizer\.clip|normalizer\.precision)\(([^()]*(?:\([^()]*\)[^()]*)*)\)', body)
        sk = ' ; '.join('%s(%s)' % (c, ' '.join(a.split())) for c, a in calls if not c.endswith('set_epi8'))
        out += '/-- %s: %s: every intrinsic / helper call with its arguments, in textual order -/\n' % (f161a, fn)
        out += 'def u16x1_avx2_%s_skeleton : String := "%s"\n\n' % ('four_rows' if tag == 'four' else 'one_row', sk.replace('"', '\\"'))
    # single-channel 8-bit images on AVX2: no masks (`_mm256_cvtepu8_epi16`); both kernels and the two horizontal-sum helpers
    f1a = 'src/convolution/u8x1/avx2.rs'
    with open(os.path.join(repo, f1a)) as fh:
        src1a = fh.read()
    for fn, nm in (('horiz_convolution_one_row', 'one_row'), ('horiz_convolution_four_rows', 'four_rows'),
                   ('hsum_i32x8_avx2', 'hsum8'), ('hsum_epi32_avx', 'hsum4')):
        m = re.search(r'unsafe fn %s\(.*?\n\}' % fn, src1a, re.S)
        if not m:
            raise TranslationError("%s: %s not found" % (f1a, fn))
        body = re.sub(r'//[^\n]*', '', m.group(0))
        calls = re.findall(r'\b(_mm(?:256)?_\w+(?:::<\w+>)?|simd_utils::\w+|chunks_exact|remainder|next|hsum_i32x8_avx2|hsum_epi32_avx|normalizer\.clip|normalizer\.precision)\(([^()]*(?:\([^()]*\)[^()]*)*)\)', body)
        sk = ' ; '.join('%s(%s)' % (c, ' '.join(a.split())) for c, a in calls)
        extra = ''
        if fn == 'hsum_epi32_avx':
            extra = ' | ' + ' '.join(re.search(r'const I: i32 = [^;]*', body).group(0).split())
        if fn.startswith('horiz'):
            extra = ' | ' + ' ; '.join(' '.join(x.split()) for x in re.findall(r'(let initial = [^;]*|result_i32(?:x4\[i\])? \+= [^;]*)', body))
        out += '/-- %s: %s: every intrinsic / helper call with its arguments, in textual order -/\n' % (f1a, fn)
        out += 'def u8x1_avx2_%s_skeleton : String := "%s%s"\n\n' % (nm, sk.replace('"', '\\"'), extra.replace('"', '\\"'))
    # two-channel 8-bit images on AVX2, four-row kernel: two rows per 256-bit register; masks by halves, call sequence, set_dst_pixel
    f2a = 'src/convolution/u8x2/avx2.rs'
    with open(os.path.join(repo, f2a)) as fh:
        src2a = fh.read()
    m = re.search(r'unsafe fn horiz_convolution_four_rows\(.*?\n\}', src2a, re.S)
    if not m:
        raise TranslationError("%s: horiz_convolution_four_rows not found" % f2a)
    body = re.sub(r'//[^\n]*', '', m.group(0))
    body = re.sub(r'/\*.*?\*/', '', body, flags=re.S)
    masks = []
    for a in re.finditer(r'let (sh\d+) = _mm256_set_epi8\(([^;]*?)\);', body, re.S):
        vals = [int(x) for x in a.group(2).replace('\n', ' ').split(',') if x.strip()]
        if len(vals) != 32:
            raise TranslationError("%s: mask %s does not have 32 entries" % (f2a, a.group(1)))
        masks.append((a.group(1), list(reversed(vals))))
    if [n for n, _ in masks] != ['sh1', 'sh2']:
        raise TranslationError("%s: expected the masks sh1, sh2, found %s" % (f2a, [n for n, _ in masks]))
    for n, v in masks:
        for half, part in (('lo', v[:16]), ('hi', v[16:])):
            out += '/-- %s: horiz_convolution_four_rows: %s 128-bit half of the shuffle mask %s, byte 0 first -/\n' % (f2a, 'low' if half == 'lo' else 'high', n)
            out += 'def u8x2_avx2_four_%s_%s : List Int := [%s]\n\n' % (n, half, ', '.join(str(x) if x >= 0 else '(%d)' % x for x in part))
    calls = re.findall(r'\b(_mm(?:256)?_\w+(?:::<\w+>)?|simd_utils::\w+|chunks_exact|remainder|first|set_dst_pixel|normalizer\.precision)\(([^()]*(?:\([^()]*\)[^()]*)*)\)', body)
    sk = ' ; '.join('%s(%s)' % (c, ' '.join(a.split())) for c, a in calls if not c.endswith('set_epi8'))
    out += '/-- %s: horiz_convolution_four_rows: every intrinsic / helper call with its arguments, in textual order -/\n' % f2a
    out += 'def u8x2_avx2_four_rows_skeleton : String := "%s"\n\n' % sk.replace('"', '\\"')
    m = re.search(r'unsafe fn set_dst_pixel\(.*?\n\}', src2a, re.S)
    if not m:
        raise TranslationError("%s: set_dst_pixel not found" % f2a)
    body = re.sub(r'//[^\n]*', '', m.group(0))
    stm = [' '.join(x.split()) for x in body[body.index('{') + 1:body.rindex('}')].split(';') if x.strip()]
    out += '/-- %s: set_dst_pixel: its statements -/\n' % f2a
    out += 'def u8x2_avx2_set_dst_pixel : String := "%s"\n\n' % ' ; '.join(stm).replace('"', '\\"')
    # two-channel 8-bit images on AVX2, one-row kernel: 256-bit masks by halves, the 128-bit mask pix_sh4, call sequence, branches
    m = re.search(r'unsafe fn horiz_convolution_one_row\(.*?\n\}', src2a, re.S)
    if not m:
        raise TranslationError("%s: horiz_convolution_one_row not found" % f2a)
    body = re.sub(r'//[^\n]*', '', m.group(0))
    body = re.sub(r'/\*.*?\*/', '', body, flags=re.S)
    masks = []
    for a in re.finditer(r'let (\w+_sh\d+) = _mm256_set_epi8\(([^;]*?)\);', body, re.S):
        vals = [int(x) for x in a.group(2).replace('\n', ' ').split(',') if x.strip()]
        if len(vals) != 32:
            raise TranslationError("%s: mask %s does not have 32 entries" % (f2a, a.group(1)))
        masks.append((a.group(1), list(reversed(vals))))
    if [n for n, _ in masks] != ['pix_sh1', 'coeff_sh1', 'pix_sh2', 'coeff_sh2', 'pix_sh3', 'coeff_sh3']:
        raise TranslationError("%s: one-row kernel: unexpected 256-bit masks %s" % (f2a, [n for n, _ in masks]))
    for n, v in masks:
        for half, part in (('lo', v[:16]), ('hi', v[16:])):
            out += '/-- %s: horiz_convolution_one_row: %s 128-bit half of the shuffle mask %s, byte 0 first -/\n' % (f2a, 'low' if half == 'lo' else 'high', n)
            out += 'def u8x2_avx2_one_%s_%s : List Int := [%s]\n\n' % (n, half, ', '.join(str(x) if x >= 0 else '(%d)' % x for x in part))
    a = re.search(r'let pix_sh4 = _mm_set_epi8\(([^;]*?)\);', body, re.S)
    if not a:
        raise TranslationError("%s: pix_sh4 not found" % f2a)
    vals = list(reversed([int(x) for x in a.group(1).replace('\n', ' ').split(',') if x.strip()]))
    out += '/-- %s: horiz_convolution_one_row: 128-bit shuffle mask pix_sh4, byte 0 first -/\n' % f2a
    out += 'def u8x2_avx2_one_pix_sh4 : List Int := [%s]\n\n' % ', '.join(str(x) if x >= 0 else '(%d)' % x for x in vals)
    calls = re.findall(r'\b(_mm(?:256)?_\w+(?:::<\w+>)?|simd_utils::\w+|chunks_exact|remainder|is_empty|saturating_add|normalizer\.clip|normalizer\.precision)\(([^()]*(?:\([^()]*\)[^()]*)*)\)', body)
    sk = ' ; '.join('%s(%s)' % (c, ' '.join(a.split())) for c, a in calls if not c.endswith('set_epi8'))
    extra = ' ; '.join(' '.join(x.split()) for x in re.findall(r'(if coeffs\.len\(\) < \d+|coeffs\[i\] = coeff|pixels\[i \* 2(?: \+ 1)?\] = pixel\[\d\] as i16|let [al]32 = [^;]*|dst_row\.get_unchecked_mut\(dst_x\)\.0 = \[[^\]]*\])', body))
    out += '/-- %s: horiz_convolution_one_row: every intrinsic / helper call with its arguments, in textual order, and the branches -/\n' % f2a
    out += 'def u8x2_avx2_one_row_skeleton : String := "%s | %s"\n\n' % (sk.replace('"', '\\"'), extra.replace('"', '\\"'))
    # the vertical pass for 8-bit components (all four u8 pixel types)
    f = 'src/convolution/vertical_u8/sse4.rs'
    with open(os.path.join(repo, f)) as fh:
        src = fh.read()
    m = re.search(r'unsafe fn vert_convolution_into_one_row<T, const PRECISION: i32>\(.*?\n\}', src, re.S)
    if not m:
        raise TranslationError("%s: vert_convolution_into_one_row not found" % f)
    body = re.sub(r'//[^\n]*', '', m.group(0))
    calls = re.findall(r'\b(_mm_\w+(?:::<\w+>)?|simd_utils::\w+|chunks_exact_mut|chunks_exact|into_remainder|remainder|first|iter_2_rows|iter_rows|native::\w+)\(([^()]*(?:\([^()]*\)[^()]*)*)\)', body)
    sk = ' ; '.join('%s(%s)' % (c, ' '.join(a.split())) for c, a in calls)
    out += '/-- %s: vert_convolution_into_one_row: every intrinsic / helper call with its arguments, in textual order -/\n' % f
    out += 'def vert_u8_sse4_skeleton : String := "%s"\n\n' % sk.replace('"', '\\"')
    # the SSE4.1 vertical pass for 16-bit components: i64 accumulators, `_mm_mul_epi32`, four shuffle masks
    f16 = 'src/convolution/vertical_u16/sse4.rs'
    with open(os.path.join(repo, f16)) as fh:
        src16 = fh.read()
    m16 = re.search(r'unsafe fn vert_convolution_into_one_row_u16<.*?\n\}', src16, re.S) or re.search(r'unsafe fn vert_convolution_into_one_row\w*<.*?\n\}', src16, re.S)
    if not m16:
        raise TranslationError("%s: row kernel not found" % f16)
    body16 = re.sub(r'//[^\n]*', '', m16.group(0))
    body16 = re.sub(r'/\*.*?\*/', '', body16, flags=re.S)
    ms = re.search(r'let c_shuffles = \[(.*?)\];', body16, re.S)
    if not ms:
        raise TranslationError("%s: c_shuffles not found" % f16)
    cs = re.findall(r'_mm_set_epi8\(([^()]*?)\)', ms.group(1), re.S)
    if len(cs) != 4:
        raise TranslationError("%s: expected 4 shuffle masks in c_shuffles, found %d" % (f16, len(cs)))
    for i, a in enumerate(cs):
        vals = list(reversed([int(x) for x in a.replace('\n', ' ').split(',') if x.strip()]))
        if len(vals) != 16:
            raise TranslationError("%s: c_shuffles[%d] does not have 16 entries" % (f16, i))
        out += '/-- %s: c_shuffles[%d], byte 0 first -/\n' % (f16, i)
        out += 'def vert_u16_sse4_sh%d : List Int := [%s]\n\n' % (i, ', '.join(str(x) if x >= 0 else '(%d)' % x for x in vals))
    calls16 = re.findall(r'\b(_mm_\w+(?:::<\w+>)?|simd_utils::\w+|chunks_exact_mut|chunks_exact|into_remainder|remainder|first|iter_2_rows|iter_rows|normalizer\.clip|convolution_by_u16)\(([^()]*(?:\([^()]*\)[^()]*)*)\)', body16)
    sk16 = ' ; '.join('%s(%s)' % (c, ' '.join(a.split())) for c, a in calls16 if not c.endswith('set_epi8'))
    out += '/-- %s: the row kernel: every intrinsic / helper call with its arguments, in textual order -/\n' % f16
    out += 'def vert_u16_sse4_skeleton : String := "%s"\n\n' % sk16.replace('"', '\\"')
    # the AVX2 twin of the 16-bit vertical pass: 256-bit registers, both halves of every mask given separately
    f16a = 'src/convolution/vertical_u16/avx2.rs'
    with open(os.path.join(repo, f16a)) as fh:
        src16a = fh.read()
    m16a = re.search(r'unsafe fn vert_convolution_into_one_row_u16<.*?\n\}', src16a, re.S)
    if not m16a:
        raise TranslationError("%s: row kernel not found" % f16a)
    body16a = re.sub(r'//[^\n]*', '', m16a.group(0))
    body16a = re.sub(r'/\*.*?\*/', '', body16a, flags=re.S)
    ms = re.search(r'let shuffles = \[(.*?)\];', body16a, re.S)
    if not ms:
        raise TranslationError("%s: shuffles not found" % f16a)
    cs = re.findall(r'_mm_set_epi8\(([^()]*?)\)', ms.group(1), re.S)
    if len(cs) != 8 or ms.group(1).count('_mm256_set_m128i') != 4:
        raise TranslationError("%s: expected 4 x _mm256_set_m128i(hi, lo) in shuffles" % f16a)
    halves = []
    for a in cs:
        vals = list(reversed([int(x) for x in a.replace('\n', ' ').split(',') if x.strip()]))
        if len(vals) != 16:
            raise TranslationError("%s: a shuffle half does not have 16 entries" % f16a)
        halves.append(vals)
    # _mm256_set_m128i(hi, lo): the first argument is the high half
    out += '/-- %s: shuffles[i] as (low half, high half), byte 0 first -/\n' % f16a
    out += 'def vert_u16_avx2_shuffles : List (List Int × List Int) := [%s]\n\n' % ', '.join(
        '([%s], [%s])' % (', '.join(str(x) if x >= 0 else '(%d)' % x for x in halves[2 * i + 1]),
                          ', '.join(str(x) if x >= 0 else '(%d)' % x for x in halves[2 * i])) for i in range(4))
    calls16a = re.findall(r'\b(_mm(?:256)?_\w+(?:::<\w+>)?|simd_utils::\w+|chunks_exact_mut|into_remainder|iter_rows|normalizer\.clip|get_unchecked_mut|get_unchecked)\(([^()]*(?:\([^()]*\)[^()]*)*)\)', body16a)
    sk16a = ' ; '.join('%s(%s)' % (c, ' '.join(a.split())) for c, a in calls16a if not c.endswith('set_epi8') and not c.endswith('set_m128i'))
    out += '/-- %s: the row kernel: every intrinsic / helper call with its arguments, in textual order -/\n' % f16a
    out += 'def vert_u16_avx2_skeleton : String := "%s"\n\n' % sk16a.replace('"', '\\"')
    # ... and its AVX2 twin: 256-bit in-lane instructions for the 32-component step, the SSE4.1 code for 8 and 4
    f = 'src/convolution/vertical_u8/avx2.rs'
    with open(os.path.join(repo, f)) as fh:
        src = fh.read()
    m = re.search(r'unsafe fn vert_convolution_into_one_row<T, const PRECISION: i32>\(.*?\n\}', src, re.S)
    if not m:
        raise TranslationError("%s: vert_convolution_into_one_row not found" % f)
    body = re.sub(r'//[^\n]*', '', m.group(0))
    calls = re.findall(r'\b(_mm(?:256)?_\w+(?:::<\w+>)?|simd_utils::\w+|chunks_exact_mut|chunks_exact|into_remainder|remainder|first|iter_2_rows|iter_rows|native::\w+)\(([^()]*(?:\([^()]*\)[^()]*)*)\)', body)
    sk = ' ; '.join('%s(%s)' % (c, ' '.join(a.split())) for c, a in calls)
    out += '/-- %s: vert_convolution_into_one_row: every intrinsic / helper call with its arguments, in textual order -/\n' % f
    out += 'def vert_u8_avx2_skeleton : String := "%s"\n\n' % sk.replace('"', '\\"')
    return out

def gen_sizes(repo):
    """Buffer-size expressions of the image constructors."""
    out = ''
    env = ConstEnv()
    specs = [
        ('src/images/typed_image.rs', r'pub fn new\(width: u32, height: u32, pixels: &\'a \[P\]\) -> Result<Self, InvalidPixelsSize> \{\s*let pixels_count = (.*?);\s*if pixels\.len\(\) < pixels_count \{', 'typed_ref_count', []),
        ('src/images/typed_image.rs', r'pub fn from_pixels_slice\(.*?\{\s*let pixels_count = (.*?);\s*if pixels\.len\(\) < pixels_count \{', 'typed_slice_count', []),
        ('src/images/typed_image.rs', r'pub fn from_pixels\(width: u32, height: u32, pixels: Vec<P>\).*?\{\s*let pixels_count = (.*?);\s*if pixels\.len\(\) < pixels_count \{', 'typed_vec_count', []),
        ('src/images/typed_image.rs', r'pub fn from_buffer\(\s*width: u32,\s*height: u32,\s*buffer: &\'a mut \[u8\],\s*\) -> Result<Self, ImageBufferError> \{\s*let size = (.*?);\s*if buffer\.len\(\) < size \{', 'typed_buffer_size', [('psize', 'usize')]),
        ('src/images/image.rs', r'impl<\'a> ImageRef<\'a> \{.*?pub fn new\(.*?\{\s*let size = (.*?);\s*if buffer\.len\(\) < size \{', 'image_ref_size', [('psize', 'usize')]),
        ('src/images/image.rs', r'pub fn from_vec_u8\(.*?\{\s*let size = (.*?);\s*if buffer\.len\(\) < size \{', 'image_vec_size', [('psize', 'usize')]),
        ('src/images/image.rs', r'pub fn from_slice_u8\(.*?\{\s*let size = (.*?);\s*if buffer\.len\(\) < size \{', 'image_slice_size', [('psize', 'usize')]),
    ]
    for f, pat, name, extra in specs:
        src = read(repo, f)
        m = re.search(pat, src, re.S)
        if not m:
            raise TranslationError("%s: size expression for %s not found (guard shape changed)" % (f, name))
        ex = m.group(1)
        ex = ex.replace('P::size()', 'psize').replace('pixel_type.size()', 'psize')
        tr = FnTranslator(env)
        envv = {'width': 'u32', 'height': 'u32', 'psize': 'usize'}
        v, ok, t = tr.tr(parse_expr_str(ex), envv, 'usize')
        out += emit_fn(name, [('width', 'u32'), ('height', 'u32')] + extra, v, ok, t,
                       '%s: required size computed by the constructor: %s' % (f, ' '.join(m.group(1).split())))
    return out

GENERATORS = [
    ('Alpha', gen_alpha),
    ('Clip', gen_clip),
    ('Constify', gen_constify),
    ('Threading', gen_threading),
    ('Crop', gen_crop),
    ('Pixels', gen_pixels),
    ('Lists', gen_lists),
    ('Sizes', gen_sizes),
    ('Convert', gen_convert),
    ('CropF64', gen_cropf64),
    ('Color', gen_color),
    ('FitCrop', gen_fitcrop),
    ('SimdAlpha', gen_simd_alpha),
    ('SimdKernels', gen_simd_kernels),
]

def write_if_changed(path, content):
    if os.path.exists(path):
        with open(path) as f:
            if f.read() == content:
                return False
    os.makedirs(os.path.dirname(path), exist_ok=True)
    with open(path, 'w') as f:
        f.write(content)
    return True

def main():
    repo = sys.argv[1] if len(sys.argv) > 1 else '/repo'
    outdir = sys.argv[2] if len(sys.argv) > 2 else os.path.join(os.path.dirname(os.path.abspath(__file__)), '..', 'lean', 'Fir', 'Generated')
    failures = []
    prelude_path = os.path.join(outdir, 'Prelude.lean')
    write_if_changed(prelude_path, LEAN_PRELUDE + 'end Fir.Gen\n')
    for name, gen in GENERATORS:
        path = os.path.join(outdir, name + '.lean')
        try:
            body = gen(repo)
            content = ('/-\n  GENERATED by /verif/tools/rs2lean.py from /repo/src - do not edit.\n-/\n'
                       'import Fir.Generated.Prelude\nset_option linter.unusedVariables false\nnamespace Fir.Gen\n\n' + body + 'end Fir.Gen\n')
            changed = write_if_changed(path, content)
            print('rs2lean: %-10s %s' % (name, 'rewritten' if changed else 'unchanged'))
        except TranslationError as ex:
            failures.append((name, str(ex)))
            print('rs2lean: %-10s TRANSLATION FAILED: %s' % (name, ex))
            # leave a stub that does not compile-depend silently: write a file whose build fails
            write_if_changed(path, 'import Fir.Generated.Prelude\n#eval (throw (IO.userError "rs2lean failed for %s: %s") : IO Unit)\n'
                             % (name, str(ex).replace('"', "'")))
    if failures:
        sys.exit(3)

if __name__ == '__main__':
    main()
