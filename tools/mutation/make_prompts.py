#!/usr/bin/env python3
"""make_prompts.py <wave-tag> : writes /tmp/wt/<tag>-<ID>.prompt.txt for every property (text of the property only,
plus a focus hint derived from the property's own anchor list) and creates the private worktrees."""
import json, os, subprocess, sys
tag = sys.argv[1]
FOCUS_W2 = {
 'C01': "the coefficient computation and fixed-point normalisation (src/convolution/mod.rs, src/convolution/optimisations.rs) or the portable 16-bit kernels",
 'C02': "one of the SIMD kernels for a less common pixel type (u16x3, u16x2, f32x2, f32x3, u8x3, i32) or the SIMD alpha kernels for 16-bit / float types",
 'C03': "unsafe index arithmetic / pointer offsets in the vertical kernels or the sizing of temporary buffers in src/resizer.rs",
 'C04': "the constructors of cropped views and split functions rather than Resizer's crop box",
 'C05': "alpha operations (src/mul_div.rs, src/alpha/*), colour mapping (src/color/*) or component conversion (src/change_components_type.rs) rather than Resizer",
 'C06': "the 16-bit or floating-point alpha code, or the in-place variants",
 'C07': "the decisions in src/resizer.rs about when the premultiply / un-premultiply steps run (options, pixel types, algorithms, SuperSampling)",
 'C08': "src/threading.rs and the rayon code paths of the alpha operations or the vertical pass",
 'C09': "the scratch-buffer management of Resizer and of reused MulDiv / mapper objects across calls with different sizes, pixel types or options",
 'C10': "the normalisation of coefficient windows at image borders or with crop boxes",
 'C11': "crop boxes with fractional offsets, and the row (vertical) direction",
 'C12': "same-size resizes with crop boxes, with alpha, with SuperSampling, or through cropped destination views",
 'C13': "the dynamic entry points (ImageRef / Image::from_slice_u8 / from_vec_u8), alignment handling and buffers longer than needed",
 'C14': "split_by_width / split_by_height_mut with a start offset, parts that do not divide evenly, or nested splits",
 'C15': "extreme aspect ratios, centering values other than (0.5, 0.5), and the interaction with an already cropped source",
 'C16': "the 16-bit tables, the alpha channel handling for two-component types, or the in-place variants",
 'C17': "conversions involving i32 and f32, narrowing conversions, and multi-component pixels",
 'C18': "the clipping / saturation at the end of a pass and the 16-bit path",
}
FOCUS_W3 = {
 'C01': "the SuperSampling path, the non-adaptive Interpolation path, or the floating-point pixel types",
 'C02': "the code paths of the SIMD kernels that process several rows at once (4-row / 2-row blocks of the horizontal kernels) for u8, u8x2, u8x3 or the AVX2 16-bit kernels",
 'C03': "integer conversions and multiplications on sizes / offsets (u32 / usize) in src/resizer.rs and src/images/*.rs, or the row remainders of the alpha kernels",
 'C04': "the buffer-size and alignment checks of the Image / ImageRef / TypedImage / TypedImageRef constructors",
 'C05': "SuperSampling, and the choice between the horizontal-only / vertical-only / two-pass paths of the convolution",
 'C06': "the u8x2 and f32 alpha kernels, and differences between the two-image and the in-place variants",
 'C07': "the handling of alpha = 0 and of very small alpha in the divide kernels / reciprocal tables, and the 16-bit alpha types",
 'C08': "the rayon paths of the horizontal pass (row bands), of Nearest and of the alpha multiply / divide operations",
 'C09': "state kept in Resizer / MulDiv across calls when the pixel type, the CPU extensions or the algorithm changes between calls",
 'C10': "the fixed-point normalisers (Normalizer16 / Normalizer32): precision choice and rounding of coefficients",
 'C11': "the column direction (x_in_tab) and up-scaling",
 'C12': "the row copying of copy_image for different pixel sizes and cropped destination views",
 'C13': "nesting of views (CroppedImage of CroppedImage, TypedCroppedImage::from_ref) and typed versus dynamic entry points",
 'C14': "split_by_height_mut / split_by_width_mut of TypedImage (slice splitting arithmetic) and of TypedCroppedImageMut",
 'C15': "the clamping of the centering values and the decision which dimension gets cropped",
 'C16': "the construction of the 8->16 and 16->8 tables (rounding, end-points)",
 'C17': "u16 <-> u8, f32 -> u8 / u16 (rounding, saturation, NaN) and u16 -> i32",
 'C18': "the 8-bit horizontal kernels (initial rounding constant, clip) on AVX2",
}
FOCUS_W4 = {
 'C01': "the portable kernels of the floating-point and i32 pixel types (src/convolution/f32x1 .. f32x4, i32x1, vertical_f32) and the filter functions in src/convolution/filters.rs",
 'C02': "the SSE4.1 / AVX2 kernels of the 16-bit pixel types (src/convolution/u16x1, u16x2, u16x4, vertical_u16) - coefficient loading, shuffles, remainders",
 'C03': "the load / store widths and pointer offsets of the vertical SIMD kernels (src/convolution/vertical_u8, vertical_u16, vertical_f32) and of src/simd_utils.rs",
 'C05': "the portable kernels (src/convolution/*/native.rs): which rows and columns they visit",
 'C06': "src/alpha/u16x2 and src/alpha/f32x4 (all back-ends)",
 'C07': "the prologue of Resizer::resize_typed / resize in src/resizer.rs (option handling, which algorithm paths apply alpha, SuperSampling's intermediate image)",
 'C09': "get_temp_image_from_buffer / the three scratch buffers of Resizer and their alignment / length arithmetic",
 'C10': "src/convolution/filters.rs (kernel functions and their supports) and the window bounds in precompute_coefficients",
 'C13': "src/images/image.rs (Image / ImageRef: typed_image, image_view, copy, from_slice_u8) and src/images/cropped_image.rs",
 'C18': "src/convolution/filters.rs (sign of kernels) and the portable 8-bit vertical kernel",
 'C11': "the row direction of resample_nearest and its interplay with iter_rows of different containers",
 'C12': "the one-dimension-matches case (only a horizontal or only a vertical pass needed) for all pixel types",
 'C04': "CroppedImage / CroppedImageMut (dynamic) constructors and ResizeOptions::crop validation in CroppedSrcImageView",
 'C08': "anything under the rayon feature not touched so far: src/threading.rs helper macros, the parts-number heuristics, alpha operations in threads",
 'C14': "split_by_width of TypedCroppedImage and split_by_height of nested views",
 'C15': "fit_src_into_dst_size ratio arithmetic",
 'C16': "the gamma 2.2 mapper and the in-place mapping paths",
 'C17': "f32 <-> i32 and u8 -> f32 / u16 -> f32 conversions",
}
FOCUS_W5 = {
 'C01': "the centre / scale arithmetic of precompute_coefficients when a crop box with a fractional origin is combined with a two-pass resize (in0/in1, bound shifting into the temporary image in src/resizer.rs), or the Hamming / Gaussian / Lanczos3 kernels; prefer a defect made of two cooperating edits that each look fine alone",
 'C02': "the SSE4.1 / AVX2 kernels of the floating-point and i32 pixel types (src/convolution/f32x1..f32x4, i32x1, vertical_f32) and the f32x2 alpha kernels",
 'C03': "src/array_chunks.rs, src/utils.rs, and what Resizer / MulDiv / PixelComponentMapper / change_type_of_pixel_components do with zero-sized and one-pixel images or views; prefer something that needs a sequence of calls",
 'C04': "TypedImageRef::new / TypedImage::from_buffer / from_pixels_slice (length and alignment arithmetic) and TypedCroppedImage::new versus ::from_ref",
 'C05': "in-place alpha operations and change_type_of_pixel_components / colour mapping applied to mutable cropped views, and the rayon-free row loops of src/alpha/*/native.rs",
 'C06': "the 8-bit multiply kernels (src/alpha/u8x4, u8x2: native and SIMD, row tails) and the typed versus dynamic entry points in src/mul_div.rs",
 'C07': "alpha handling for U16x2 / U16x4 / F32x2 / F32x4, the MulDiv::is_supported gate and how ResizeOptions.use_alpha is carried through Resizer::resize -> resize_typed -> resample_*",
 'C08': "how thread bands interact with a crop box / source offset, and the rayon paths of divide_alpha_inplace / multiply_alpha",
 'C09': "sequences of three or more calls mixing pixel types of different alignment (u8, then f32x3, then u16x3 ...), reset_internal_buffers and Resizer::clone, and the alpha_buffer / super_sampling_buffer (not the convolution buffer)",
 'C10': "the SIMD kernels of the 16-bit pixel types (u16x1 .. u16x4, vertical_u16): initial rounding value, coefficient remainders, final shift / pack",
 'C11': "multi-byte pixel types (U16x3, F32x3, F32x4), 1-pixel destinations, very large scale factors, and the float accumulation of the row position",
 'C12': "integer-aligned crop boxes given with a non-zero origin through different containers, and the decision `is the crop box integer-aligned` itself",
 'C13': "the typed versus dynamic entry points of MulDiv and PixelComponentMapper / change_type_of_pixel_components, and the u8-buffer -> typed-pixel reinterpretation (align_to) in src/images/*.rs and src/utils.rs",
 'C14': "the default ImageView / ImageViewMut split implementations in src/image_view.rs and src/images/unsafe_image.rs",
 'C15': "how Resizer applies ResizeOptions::fit_into_destination (centering, interplay with an explicit crop, with use_alpha) - src/resizer.rs option plumbing - rather than fit_src_into_dst_size's arithmetic alone",
 'C16': "map_with_gaps for four-component types and rows that are not a whole number of SIMD/unrolled groups, and forward versus backward direction of the mapper",
 'C17': "the type-pair dispatch in src/change_components_type.rs (which conversion is chosen for which pair of pixel types) and multi-component pixels",
 'C18': "the SIMD 16-bit horizontal and vertical kernels: treatment of u16 values >= 32768 and of coefficients before the multiply",
}
FOCUS_W6 = {
 'C01': "the non-adaptive Interpolation algorithm when down-scaling, and SuperSampling combined with alpha handling or with a fractional crop box",
 'C02': "the SSE4.1 / AVX2 multiply_alpha kernels of the 16-bit and float pixel types (src/alpha/u16x2, u16x4, f32x2, f32x4) and the horizontal 16-bit convolution kernels (src/convolution/u16x1 .. u16x4)",
 'C03': "MulDiv, PixelComponentMapper and change_type_of_pixel_components on zero-sized / one-pixel images and views, and u32 / usize arithmetic in src/images/*.rs (cropped views of cropped views, offsets near u32::MAX)",
 'C04': "the dynamic CroppedImage / CroppedImageMut constructors and TypedCroppedImageMut::new / from_ref",
 'C05': "vertical-only and horizontal-only resizes of 16-bit and float pixel types into mutable cropped destination views, with the SIMD back-ends",
 'C06': "the F32x2 / F32x4 SIMD multiply and divide kernels (row tails, special values) and the portable 16-bit kernels",
 'C07': "alpha handling combined with SuperSampling or Interpolation, and the U8x2 pixel type",
 'C08': "alpha operations and resizes whose source or destination is a cropped view, under rayon, with thread counts larger than the number of rows",
 'C09': "reset_internal_buffers, size_of_internal_buffers, the super_sampling_buffer, and a Resizer that is moved between pixel types of different alignment several times",
 'C10': "the I32 and F32 convolution kernels (portable and SIMD): accumulation order, final rounding / conversion",
 'C11': "down-scaling by large non-integer factors through the dynamic entry point and through cropped source views",
 'C12': "the case that only one dimension matches, for 16-bit and float pixel types on the SIMD back-ends, and same-size copies of U16x3 / F32x3 images",
 'C13': "IntoImageView / IntoImageViewMut implementations, TypedImage::from_pixels / from_pixels_slice, Image::from_vec_u8 / into_vec / copy",
 'C14': "split_by_height / split_by_height_mut of cropped views and of parts of earlier splits (offset composition)",
 'C15': "fit_into_destination(None), zero-sized sources or destinations, and destinations whose aspect ratio equals the source's up to rounding",
 'C16': "the gamma 2.2 mapper, 16-bit to 8-bit tables, and the in-place variants for 2- and 4-component types",
 'C17': "u16 <-> f32 and u8 <-> f32 conversions and the typed entry point change_type_of_pixel_components_typed for multi-component pixels",
 'C18': "the I32 and F32 kernels with non-negative filters, and the Hamming / Gaussian kernel functions",
}
FOCUS_W7 = dict(FOCUS_W6)
FOCUS_W7.update({
 'C02': "the AVX2 horizontal convolution kernels of the three-channel types (src/convolution/u8x3/avx2.rs, u16x3/avx2.rs: width-dependent loop exits, 5-pixel steps) and the SSE4.1 / AVX2 kernels of I32 and F32 images",
 'C03': "Resizer::resize_typed / resize with ResizeOptions built step by step (crop after fit_into_destination, use_alpha toggles), thread-pool / rayon-free paths of MulDiv on cropped views, and arithmetic on u32 sizes in src/resizer.rs",
 'C05': "the two-pass path: the intermediate image and its reuse, resizes whose first pass is vertical (Resizer chooses the order), with SIMD back-ends and destinations that are plain typed images over longer buffers",
 'C06': "the U8x2 and U16x2 kernels (SSE4.1 / AVX2 row tails, opaque / transparent runs), and divide_alpha of pixels whose colour exceeds alpha",
 'C09': "a Resizer reused across different algorithms (Nearest, SuperSampling, Convolution) and different use_alpha settings; the alpha_buffer and its capacity handling",
 'C10': "the 16-bit kernels (Normalizer32: coefficient normalisation, precision selection) and two-pass resizes of U16x2 / U16x4 with alpha handling on opaque uniform images",
 'C13': "resizes whose source is a plain typed image over a longer buffer or a cropped view of a cropped view, through Resizer::resize_typed, for 16-bit types on SIMD back-ends",
 'C18': "the 16-bit SIMD kernels (SSE4.1 / AVX2, horizontal and vertical) with Box / Bilinear / Gaussian filters on images of extreme values (0 and 65535)",
})
FOCUS = FOCUS_W7 if tag.startswith('w7') else FOCUS_W6 if tag.startswith('w6') else FOCUS_W5 if tag.startswith('w5') else FOCUS_W4 if tag.startswith('w4') else (FOCUS_W3 if tag.startswith('w3') else FOCUS_W2)
os.makedirs('/tmp/wt', exist_ok=True)
tmpl = open(os.path.join(os.path.dirname(os.path.abspath(__file__)), 'prompt_template.txt')).read()
only = sys.argv[2:]
for line in open('/verif/properties.jsonl'):
    p = json.loads(line)
    pid = p['id']
    if only and pid not in only:
        continue
    name = '%s-%s' % (tag, pid)
    wt, out = '/tmp/wt/' + name, '/tmp/wt/' + name + '-out'
    anchors = ', '.join(p['anchors']['files']) if isinstance(p['anchors'], dict) else str(p['anchors'])
    quant = p['quantifier']['text'] if isinstance(p['quantifier'], dict) else str(p['quantifier'])
    prop = "%s - %s\n\nStatement: %s\n\nScope (what it quantifies over): %s\n\nCode it is anchored in: %s" % (pid, p['title'], p['statement'], quant, anchors)
    focus = "To keep the set of seeded defects diverse, do NOT go for the most obvious spot; look in particular at: %s.\n\n" % FOCUS[pid]
    txt = tmpl.replace('@PROPERTY@', prop).replace('@FOCUS@', focus).replace('@OUT@', out).replace('@WT@', wt)
    open('/tmp/wt/%s.prompt.txt' % name, 'w').write(txt)
    if not os.path.isdir(wt):
        subprocess.run(['git', '-C', '/repo', 'worktree', 'add', '--detach', wt, 'HEAD'], check=True, capture_output=True)
    os.makedirs(out, exist_ok=True)
print('ok')
