#!/usr/bin/env python3
"""make_prompts.py <wave-tag> : writes /tmp/wt/<tag>-<ID>.prompt.txt for every property (text of the property only,
plus a focus hint derived from the property's own anchor list) and creates the private worktrees."""
import json, os, subprocess, sys
tag = sys.argv[1]
FOCUS = {
 'C01': "the coefficient computation and fixed-point normalisation (src/convolution/mod.rs, src/convolution/optimisations.rs) or the portable 16-bit kernels",
 'C02': "one of the SIMD kernels for a less common pixel type (u16x3, u16x2, f32x2, f32x3, u8x3, i32) or the SIMD alpha kernels for 16-bit / float types",
 'C03': "unsafe index arithmetic / pointer offsets in the vertical kernels or the sizing of temporary buffers in src/resizer.rs",
 'C04': "the constructors of cropped views and split functions rather than Resizer's crop box",
 'C05': "alpha operations (src/mul_div.rs, src/alpha/*), colour mapping (src/color/*) or component conversion (src/change_components_type.rs) rather than Resizer",
 'C06': "the 16-bit or floating-point alpha code, or the in-place variants",
 'C07': "the decisions in src/resizer.rs about when the premultiply / un-premultiply steps run (options, pixel types, algorithms, SuperSampling)",
 'C08': "src/threading.rs and the rayon code paths of the alpha operations or the vertical pass",
 'C09': "the scratch-buffer management of Resizer and of reused MulDiv / mapper objects across calls with different sizes, pixel types or options",
 'C10': "the normalisation of coefficient windows at image borders or with crop boxes",
 'C11': "crop boxes with fractional offsets, and the row (vertical) direction",
 'C12': "same-size resizes with crop boxes, with alpha, with SuperSampling, or through cropped destination views",
 'C13': "the dynamic entry points (ImageRef / Image::from_slice_u8 / from_vec_u8), alignment handling and buffers longer than needed",
 'C14': "split_by_width / split_by_height_mut with a start offset, parts that do not divide evenly, or nested splits",
 'C15': "extreme aspect ratios, centering values other than (0.5, 0.5), and the interaction with an already cropped source",
 'C16': "the 16-bit tables, the alpha channel handling for two-component types, or the in-place variants",
 'C17': "conversions involving i32 and f32, narrowing conversions, and multi-component pixels",
 'C18': "the clipping / saturation at the end of a pass and the 16-bit path",
}
os.makedirs('/tmp/wt', exist_ok=True)
tmpl = open(os.path.join(os.path.dirname(os.path.abspath(__file__)), 'prompt_template.txt')).read()
for line in open('/verif/properties.jsonl'):
    p = json.loads(line)
    pid = p['id']
    name = '%s-%s' % (tag, pid)
    wt, out = '/tmp/wt/' + name, '/tmp/wt/' + name + '-out'
    anchors = ', '.join(p['anchors']['files']) if isinstance(p['anchors'], dict) else str(p['anchors'])
    quant = p['quantifier']['text'] if isinstance(p['quantifier'], dict) else str(p['quantifier'])
    prop = "%s - %s\n\nStatement: %s\n\nScope (what it quantifies over): %s\n\nCode it is anchored in: %s" % (pid, p['title'], p['statement'], quant, anchors)
    focus = "To keep the set of seeded defects diverse, do NOT go for the most obvious spot; look in particular at: %s.\n\n" % FOCUS[pid]
    txt = tmpl.replace('@PROPERTY@', prop).replace('@FOCUS@', focus).replace('@OUT@', out).replace('@WT@', wt)
    open('/tmp/wt/%s.prompt.txt' % name, 'w').write(txt)
    if not os.path.isdir(wt):
        subprocess.run(['git', '-C', '/repo', 'worktree', 'add', '--detach', wt, 'HEAD'], check=True, capture_output=True)
    os.makedirs(out, exist_ok=True)
print('ok')
