#!/bin/sh
# confirm.sh <name> [extra cargo flags for the demo, e.g. "--features rayon"]:
# independent confirmation of a seeded change delivered in /tmp/wt/<name>-out (worktree /tmp/wt/<name>)
id=$1; extra=$2; wt=/tmp/wt/$id; out=/tmp/wt/$id-out
cd $wt || exit 2
git checkout -q -- . ; git clean -fdq src tests
cp $out/demo.rs tests/seeded_demo.rs
echo "--- demo on unchanged tree"
cargo test --offline $extra --test seeded_demo 2>&1 | grep -E "^test result|panicked at|^error" | head -3
git apply $out/patch.diff || { echo "PATCH DOES NOT APPLY"; exit 1; }
echo "--- demo with patch"
cargo test --offline $extra --test seeded_demo 2>&1 | grep -E "^test result|panicked at|^error" | head -3
rm -f tests/seeded_demo.rs
echo "--- test suite with patch"
cargo test --workspace --no-fail-fast --offline 2>&1 | grep -E "^test .* (ok|FAILED)$" | sort > $out/confirm_patched.txt
git checkout -q -- . ; git clean -fdq src tests
echo "passed=$(grep -c ' ok$' $out/confirm_patched.txt) failed=$(grep -c FAILED $out/confirm_patched.txt)"
grep FAILED $out/confirm_patched.txt | grep -v "downscale_\|resize_u8x3_interpolation\|try_resize_to_other_pixel_type\|custom_filter_u8x4\|src/lib.rs" | head
