"""Per-property configuration of ./check: harness runs, rule describing the generated cases,
trusted base, assumptions and the clauses that are only partially proved."""

COMMON_TB = [
    "Lean 4.33.0 kernel (thorough tier: re-checked by leanchecker)",
    "axioms of every property theorem are a subset of {propext, Classical.choice, Quot.sound} (audited on every run)",
    "tools/rs2lean.py: Rust->Lean translator for the scalar integer core (re-run on every check; validated against the real functions through the hook module)",
    "harness/ (Rust, in-process calls of /repo built with --cfg fir_verif) and the firmodel line protocol",
]

CONFIG = {}
PENDING = {}

CONFIG['C06'] = {
    'runs': [{'profile': 'verif-dbg'}],
    'rule': "whole images through the real alpha kernels: 6 alpha pixel types x {mul,div} x back-ends {none,sse4,avx2} x "
            "{two-image,in-place} x {typed,dynamic}; 8-bit: all 65,536 (colour, alpha) pairs per configuration, rotated so that "
            "lane positions vary, plus 3-row images of 14 widths (every main-loop / remainder / tail position); 16-bit: boundary "
            "grid + structured random pairs incl. colour > alpha and alpha = 1; f32: specials, random, inf/nan. "
            "A case is one image; distinct_nontrivial counts distinct request lines (hash of configuration and content). "
            "Each case is judged twice by the Lean driver: model == implementation, and implementation satisfies Spec.Alpha.",
    'trusted_base': COMMON_TB + [
        "SIMD lane plumbing of src/alpha/*/{sse4,avx2}.rs is tied to the model by correspondence only (sampled, all 65,536 8-bit pairs)",
        "f32 multiply/divide: Lean Float32 (C float) taken as IEEE-754 binary32",
    ],
    'assumptions': [
        "usize is 64 bits (x86_64)",
        "row iteration / lane placement of the kernels is validated by correspondence, not proved",
        "float alpha is compared numerically (-0.0 == +0.0), NaN payloads are canonicalised",
    ],
    'partial': [],
    'level_text': "Machine-checked proof (Lean 4): the scalar alpha arithmetic is re-translated from src/alpha/common.rs on every run and "
                  "proved exactly rounded (multiply, all 8- and 16-bit pairs), faithful + saturating + overflow-free (divide: all 65,536 "
                  "8-bit pairs by kernel evaluation, all 2^32 16-bit pairs analytically), alpha unchanged, non-alpha types rejected; the "
                  "image-level model built from those definitions is tied to the real native/SSE4.1/AVX2 kernels by a correspondence check.",
    'level_note': "Trusted: Lean kernel, rs2lean translator, harness + line protocol. SIMD lane plumbing and row iteration are tied by "
                  "correspondence (sampled; all 65,536 8-bit pairs per configuration), not proved. f32 arithmetic = Lean Float32.",
    'technique': "Lean 4 theorems over Rust->Lean translated definitions (omega / nlinarith / decide +kernel) + differential correspondence",
}

CONFIG['C17'] = {
    'runs': [{'profile': 'verif-dbg'}],
    'rule': "change_type_of_pixel_components through the public API for all 13 x 13 (source, destination) pixel-type pairs: "
            "rejected pairs and dimension mismatches are compared with the translated dispatch table; for each of the 43 supported "
            "pairs the complete ramp (all 256 / 65,536 component values) for integer sources, and for I32 / F32 sources boundary "
            "values (every rounding point k/255, (k+0.5)/255 +- 1 ulp, shifts' rounding points, NaN, +-inf, +-0, subnormals) plus "
            "dense random samples; widening round trips a->b->a for the five widening pairs on the complete domain. One case = one "
            "image (all components of a pair); distinct_nontrivial counts distinct (pair, kind of case). The Lean driver compares "
            "model == implementation, soft-float model == hardware Float32 model, and judges end points, monotonicity (after "
            "sorting by input), saturation and round trips on the implementation's output.",
    'trusted_base': COMMON_TB + [
        "Fir.Soft (exact binary32 rounding over Nat) is tied to hardware Float32 and to the implementation by correspondence on the "
        "complete u8/u16 domains and the f32 samples",
        "IEEE-754 round-to-nearest is monotone (premise `Monotone fl` of float_to_int_monotone / int_to_float_monotone)",
    ],
    'assumptions': [
        "float conversions for arbitrary f32 inputs: monotonicity is proved for the shape clamp -> scale -> round -> saturating cast "
        "under any monotone rounding; the source text of the six float impls is pinned by float_sources_as_modelled",
        "I32 range convention of the crate: [0, i32::MAX] towards unsigned types, [i32::MIN, i32::MAX] towards f32",
    ],
    'partial': ["end-point clause for u8->i32 and u16->i32 is false of the code (known findings F13a, F13b; negation proved: "
                "u8_i32_max_not_reached, u16_i32_max_not_reached)"],
    'level_text': "Machine-checked proof (Lean 4): integer component conversions are re-translated from src/pixels.rs on every run and proved "
                  "monotone, end-point preserving (except the recorded finding), saturating and lossless on widening round trips for all "
                  "inputs; u8/u16 <-> f32 are proved on an exact soft-float model for the complete domains (kernel evaluation, 65,536 "
                  "values in 16 parallel chunks); f32 -> integer monotonicity for all inputs abstractly in the rounding function. The "
                  "soft-float model, the hardware model and the implementation are compared on complete ramps on every run.",
    'level_note': "Trusted: Lean kernel, rs2lean, harness/protocol; IEEE rounding monotone (premise); Fir.Soft == hardware binary32 by "
                  "correspondence (complete u8/u16 domains + samples).",
    'technique': "Lean 4 theorems (omega, decide +kernel over complete domains, Mathlib monotonicity) over translated definitions + soft-float model + differential correspondence",
}
