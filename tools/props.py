"""Per-property configuration of ./check: harness runs, rule describing the generated cases,
trusted base, assumptions and the clauses that are only partially proved."""

COMMON_TB = [
    "Lean 4.33.0 kernel (thorough tier: re-checked by leanchecker)",
    "axioms of every property theorem are a subset of {propext, Classical.choice, Quot.sound} (audited on every run)",
    "tools/rs2lean.py: Rust->Lean translator for the scalar integer core (re-run on every check; validated against the real functions through the hook module)",
    "harness/ (Rust, in-process calls of /repo built with --cfg fir_verif) and the firmodel line protocol",
]

CONFIG = {}
PENDING = {}

CONFIG['C06'] = {
    'runs': [{'profile': 'verif-dbg'}],
    'rule': "whole images through the real alpha kernels: 6 alpha pixel types x {mul,div} x back-ends {none,sse4,avx2} x "
            "{two-image,in-place} x {typed,dynamic}; 8-bit: all 65,536 (colour, alpha) pairs per configuration, rotated so that "
            "lane positions vary, plus 3-row images of 14 widths (every main-loop / remainder / tail position); 16-bit: boundary "
            "grid + structured random pairs incl. colour > alpha and alpha = 1; f32: specials, random, inf/nan. "
            "A case is one image; distinct_nontrivial counts distinct request lines (hash of configuration and content). "
            "Each case is judged twice by the Lean driver: model == implementation, and implementation satisfies Spec.Alpha.",
    'trusted_base': COMMON_TB + [
        "SIMD lane plumbing of src/alpha/*/{sse4,avx2}.rs is tied to the model by correspondence only (sampled, all 65,536 8-bit pairs)",
        "f32 multiply/divide: Lean Float32 (C float) taken as IEEE-754 binary32",
    ],
    'assumptions': [
        "usize is 64 bits (x86_64)",
        "row iteration / lane placement of the kernels is validated by correspondence, not proved",
        "float alpha is compared numerically (-0.0 == +0.0), NaN payloads are canonicalised",
    ],
    'partial': [],
    'level_text': "Machine-checked proof (Lean 4): the scalar alpha arithmetic is re-translated from src/alpha/common.rs on every run and "
                  "proved exactly rounded (multiply, all 8- and 16-bit pairs), faithful + saturating + overflow-free (divide: all 65,536 "
                  "8-bit pairs by kernel evaluation, all 2^32 16-bit pairs analytically), alpha unchanged, non-alpha types rejected; the "
                  "image-level model built from those definitions is tied to the real native/SSE4.1/AVX2 kernels by a correspondence check.",
    'level_note': "Trusted: Lean kernel, rs2lean translator, harness + line protocol. SIMD lane plumbing and row iteration are tied by "
                  "correspondence (sampled; all 65,536 8-bit pairs per configuration), not proved. f32 arithmetic = Lean Float32.",
    'technique': "Lean 4 theorems over Rust->Lean translated definitions (omega / nlinarith / decide +kernel) + differential correspondence",
}
