"""Per-property configuration of ./check: harness runs, rule describing the generated cases,
trusted base, assumptions and the clauses that are only partially proved."""

COMMON_TB = [
    "Lean 4.33.0 kernel (thorough tier: re-checked by leanchecker)",
    "axioms of every property theorem are a subset of {propext, Classical.choice, Quot.sound} (audited on every run)",
    "tools/rs2lean.py: Rust->Lean translator for the scalar integer core (re-run on every check; validated against the real functions through the hook module)",
    "harness/ (Rust, in-process calls of /repo built with --cfg fir_verif) and the firmodel line protocol",
]

CONFIG = {}
PENDING = {}

CONFIG['C06'] = {
    'runs': [{'profile': 'verif-dbg'}],
    'rule': "whole images through the real alpha kernels: 6 alpha pixel types x {mul,div} x back-ends {none,sse4,avx2} x "
            "{two-image,in-place} x {typed,dynamic}; 8-bit: all 65,536 (colour, alpha) pairs per configuration, rotated so that "
            "lane positions vary, plus 3-row images of 14 widths (every main-loop / remainder / tail position); 16-bit: boundary "
            "grid + structured random pairs incl. colour > alpha and alpha = 1; f32: specials, random, inf/nan; the same operations "
            "through cropped / nested / offset views over longer buffers (5 placements for source and destination, whole buffers "
            "compared: nothing outside the destination view may change; size mismatches rejected); the constant tables RECIP_ALPHA, "
            "RECIP_ALPHA16 and the 8-bit clip table as built by the implementation (hooks) against the translated generators. "
            "A case is one image; distinct_nontrivial counts distinct request lines (hash of configuration and content). "
            "Each case is judged twice by the Lean driver: model == implementation, and implementation satisfies Spec.Alpha.",
    'trusted_base': COMMON_TB + [
        "SIMD lane plumbing of src/alpha/*/{sse4,avx2}.rs is tied to the model by correspondence only (sampled, all 65,536 8-bit pairs)",
        "f32 multiply/divide: Lean Float32 (C float) taken as IEEE-754 binary32",
    ],
    'assumptions': [
        "usize is 64 bits (x86_64)",
        "row iteration / lane placement of the kernels is validated by correspondence, not proved",
        "float alpha is compared numerically (-0.0 == +0.0), NaN payloads are canonicalised",
    ],
    'partial': [],
    'level_text': "Machine-checked proof (Lean 4): the scalar alpha arithmetic is re-translated from src/alpha/common.rs on every run and "
                  "proved exactly rounded (multiply, all 8- and 16-bit pairs), faithful + saturating + overflow-free (divide: all 65,536 "
                  "8-bit pairs by kernel evaluation, all 2^32 16-bit pairs analytically), alpha unchanged, non-alpha types rejected; the "
                  "image-level model built from those definitions is tied to the real native/SSE4.1/AVX2 kernels by a correspondence check.",
    'level_note': "Trusted: Lean kernel, rs2lean translator, harness + line protocol. SIMD lane plumbing and row iteration are tied by "
                  "correspondence (sampled; all 65,536 8-bit pairs per configuration), not proved. f32 arithmetic = Lean Float32.",
    'technique': "Lean 4 theorems over Rust->Lean translated definitions (omega / nlinarith / decide +kernel) + differential correspondence",
}

CONFIG['C17'] = {
    'runs': [{'profile': 'verif-dbg'}],
    'rule': "change_type_of_pixel_components through the public API for all 13 x 13 (source, destination) pixel-type pairs: "
            "rejected pairs and dimension mismatches are compared with the translated dispatch table; for each of the 43 supported "
            "pairs the complete ramp (all 256 / 65,536 component values) for integer sources, and for I32 / F32 sources boundary "
            "values (every rounding point k/255, (k+0.5)/255 +- 1 ulp, shifts' rounding points, NaN, +-inf, +-0, subnormals) plus "
            "dense random samples; widening round trips a->b->a for the five widening pairs on the complete domain. One case = one "
            "image (all components of a pair); distinct_nontrivial counts distinct (pair, kind of case). The Lean driver compares "
            "model == implementation, soft-float model == hardware Float32 model, and judges end points, monotonicity (after "
            "sorting by input), saturation and round trips on the implementation's output.",
    'trusted_base': COMMON_TB + [
        "Fir.Soft (exact binary32 rounding over Nat) is tied to hardware Float32 and to the implementation by correspondence on the "
        "complete u8/u16 domains and the f32 samples",
        "`Monotone fl` (premise of float_to_int_monotone / int_to_float_monotone) is proved for round-to-nearest-even as IEEE-754 defines it "
        "(Fir.Ieee.flP_monotone; instance float_to_int_monotone_ieee); trusted: the hardware implements that function",
    ],
    'assumptions': [
        "float conversions for arbitrary f32 inputs: monotonicity is proved for the shape clamp -> scale -> round -> saturating cast "
        "under any monotone rounding; the source text of the six float impls is pinned by float_sources_as_modelled",
        "I32 range convention of the crate: [0, i32::MAX] towards unsigned types, [i32::MIN, i32::MAX] towards f32",
    ],
    'partial': ["end-point clause for u8->i32 and u16->i32 is false of the code (known findings F13a, F13b; negation proved: "
                "u8_i32_max_not_reached, u16_i32_max_not_reached)"],
    'level_text': "Machine-checked proof (Lean 4): integer component conversions are re-translated from src/pixels.rs on every run and proved "
                  "monotone, end-point preserving (except the recorded finding), saturating and lossless on widening round trips for all "
                  "inputs; u8/u16 <-> f32 are proved on an exact soft-float model for the complete domains (kernel evaluation, 65,536 "
                  "values in 16 parallel chunks); f32 -> integer monotonicity for all inputs abstractly in the rounding function. The "
                  "soft-float model, the hardware model and the implementation are compared on complete ramps on every run.",
    'level_note': "Trusted: Lean kernel, rs2lean, harness/protocol; IEEE rounding monotone (premise); Fir.Soft == hardware binary32 by "
                  "correspondence (complete u8/u16 domains + samples).",
    'technique': "Lean 4 theorems (omega, decide +kernel over complete domains, Mathlib monotonicity) over translated definitions + soft-float model + differential correspondence",
}

CONFIG['C04'] = {
    'runs': [{'profile': 'verif-dbg'}],
    'rule': "(1) check_crop_box through the hook on the boundary grid {0,1,W-1,W,W+1,2^31-1,2^31,2^32-2,2^32-1}^4 for 24 image sizes "
            "incl. 0 and u32::MAX, plus seeded random u32 sextuples; (2) the six real cropped containers (TypedCroppedImage::new/from_ref, "
            "TypedCroppedImageMut::new/from_ref, CroppedImage, CroppedImageMut) over tagged images of every size 0..4 x 0..4 with the same "
            "kind of grid: outcome, error kind, and for accepted views every row as buffer indices; (3) f64 crop boxes through "
            "Resizer::resize with 19^4 combinations of {-inf,-1e300,-1,denormals,+-0,0.5,1,W-1,W-0.5,W-ulp,W,W+ulp,W+1,1e300,inf,NaN}; "
            "(4) every image constructor x 13 pixel types x sizes incl. 2^31 x 2^31 and u32::MAX^2 x buffer lengths need-1, need, need+1 x "
            "misalignment 0..3 bytes; (5) C14's split requests (ranges inside / across / beyond typed, cropped and nested views, read-only and "
            "mutable): a range is accepted iff it lies inside the view it is applied to. distinct_nontrivial counts distinct request lines of accepted views / grid points.",
    'trusted_base': COMMON_TB + [
        "row exposure of accepted views (Fir.View.rows) is tied to the real containers by correspondence (complete for images up to 4x4)",
        "f64 comparisons/addition: Lean Float (hardware binary64); theorems use the IEEE-like carrier XF with an arbitrary rounding of the sum",
    ],
    'assumptions': [
        "usize is 64 bits; every Rust slice is shorter than 2^63 bytes",
        "a zero-area crop box or zero-sized destination is a documented no-op returning Ok *before* validation (resize_typed early-out, "
        "pinned by crop_steps_as_modelled); C04's iff is stated for calls that reach the validation",
        "Image::new / TypedImage::new allocate and have no error channel: absurd sizes abort in the allocator (outside C04)",
    ],
    'partial': [],
    'level_text': "Machine-checked proof (Lean 4): check_crop_box and the constructors' size expressions are re-translated from the source on "
                  "every run and proved to accept exactly the in-bounds rectangles / large-enough buffers for ALL u32 arguments with no "
                  "overflow and the documented error kind; CroppedSrcImageView::crop is proved to accept exactly finite non-negative in-bounds "
                  "f64 boxes (IEEE-like carrier, any rounding), its source text pinned to the model; real containers are compared with the "
                  "model on boundary grids (about a million constructor calls per run).",
    'level_note': "Trusted: Lean kernel, rs2lean, harness/protocol. The connection between an accepted view and the rows it exposes is proved "
                  "in the model (Fir.View, C14/ViewLemmas) and tied to the code by correspondence.",
    'technique': "Lean 4 theorems (omega, case analysis) over translated validation code + differential correspondence on boundary grids",
}

CONFIG['C14'] = {
    'runs': [{'profile': 'verif-dbg'}],
    'rule': "exhaustive: every view size 1..7 x 1..7 (thorough: 1..12) in five placements (exact typed image, typed image at an offset "
            "of a longer buffer, crop inside a parent with margins, crop flush against the right/bottom edge of an offset parent, nested "
            "crop), both axes, every (start, size, parts) with start 0..extent, size 1..extent+1, parts 1..size+1 (so invalid requests are "
            "included), immutable and mutable splits; pixels carry their buffer index as identity; mutable parts are written through "
            "(+1000*(part+1)) and the parent buffer is read back; plus seeded split-of-split compositions and degenerate (zero width / "
            "height) views. distinct_nontrivial counts distinct accepted requests with at least 2 parts.",
    'trusted_base': COMMON_TB,
    'assumptions': ["views of the harness are built from TypedImageRef / TypedImage / TypedCroppedImage(Mut) to nesting depth 2; the theorems "
                    "cover every nesting depth"],
    'partial': ["a typed image of height 0 split by width panics in the real code (known finding F16); the model and theorems cover it "
                "(splitW_tiles needs 0 < height only for the well-formedness of the parts)"],
    'level_text': "Machine-checked proof (Lean 4), unbounded in all sizes and nesting depth: the model of split_by_height/width (slice "
                  "splitting for typed images, delegation + re-wrapping for cropped views) returns None exactly for invalid requests and "
                  "otherwise k well-formed parts whose sizes are n/k (+1 for the first n%k), whose rows glued in order are exactly the "
                  "requested band, pairwise disjoint in buffer indices (so mutable parts never alias); split-of-split follows because "
                  "parts are again well-formed views. The model is tied to the real containers by an exhaustive correspondence over "
                  "small views.",
    'level_note': "Trusted: Lean kernel, harness/protocol; the hand-written model Fir.View is tied to the code by correspondence (exhaustive "
                  "up to 7x7 / 12x12, five placements), not generated from it.",
    'technique': "Lean 4 theorems by structural induction on view descriptors and list induction + exhaustive differential correspondence",
}

CONFIG['C08'] = {
    'runs': [{'profile': 'verif-dbg', 'features': 'rayon'}],
    'rule': "harness built with the crate's `rayon` feature: (1) band-count arithmetic through the hook on a 22 x 22 boundary grid "
            "(0, 1, 255..257, 65535..65537, 2^31, u32::MAX, ...) plus seeded random u32 pairs, compared with the translated functions; "
            "(2) resizes of all 13 pixel types x {Nearest, Convolution, Interpolation, SuperSampling} x alpha on/off x geometries incl. "
            "1xN, Nx1, 65,535 / 65,536 / 65,537 rows or columns, under real pools of 2,3,4,5,7,8,16,32,61 threads (more threads than "
            "rows included), three repetitions each, byte-compared with the pool-of-one (sequential path) result; (3) the four alpha "
            "operations on six alpha types under pools of 2,5,16,32. distinct_nontrivial counts distinct (configuration, threads) lines.",
    'trusted_base': COMMON_TB + [
        "rayon's scheduler and the data-race freedom of UnsafeImageMut (raw-pointer views) are not modelled: the theorem "
        "schedule_independent is about interleavings of atomic single-pixel writes of tasks with disjoint targets",
    ],
    'assumptions': [
        "band-locality of the kernels (a destination row depends on its source row only / a destination column band on the same source "
        "column band) is what banded_rows_eq_sequential / banded_cols_aligned express over the view model; the kernels themselves are "
        "tied by the byte comparison under real pools",
    ],
    'partial': ["OS thread schedules cannot be enumerated by a theorem: the interleaving model is what is proved, real pools are sampled"],
    'level_text': "Machine-checked proof (Lean 4): the band-count arithmetic (re-translated from src/threading.rs on every run) is total for all "
                  "u32 sizes and never exceeds the split extent; a banded row pass performs literally the writes of the sequential pass, "
                  "column bands are aligned and their writes are a permutation of the sequential ones (from the C14 tiling theorems); any "
                  "order of writes with distinct targets gives the same memory, hence independence of schedule and thread count in the "
                  "model. Real pools of 1..61 threads are compared byte-for-byte on every run, incl. the 65,536 overflow edge.",
    'level_note': "Trusted: Lean kernel, rs2lean, harness. Not modelled: rayon's scheduler, real data races through UnsafeImageMut.",
    'technique': "Lean 4 theorems (translated arithmetic; permutation-invariance of disjoint writes; tiling lemmas) + differential runs under real thread pools",
}


def extract_color_tables(repo, root, report):
    """(X) pre-build step of C16: dump the 16 tables from the running implementation and regenerate
    lean/Fir/Generated/Color/*.lean (rewritten only when a table changed)."""
    import os
    import subprocess
    env = dict(os.environ)
    env['CARGO_NET_OFFLINE'] = 'true'
    h = os.path.join(root, 'harness')
    p = subprocess.run(['cargo', 'build', '--profile', 'verif-dbg'], cwd=h, stdout=subprocess.PIPE, stderr=subprocess.STDOUT, text=True, env=env)
    if p.returncode != 0:
        return 1, 'cargo build failed: ' + '; '.join(l for l in p.stdout.splitlines() if l.startswith('error'))[:400]
    out = os.path.join(root, 'work', 'tables')
    p = subprocess.run([os.path.join(h, 'target', 'verif-dbg', 'fir-harness'), 'dump-tables', '--out', out],
                       cwd=h, stdout=subprocess.PIPE, stderr=subprocess.STDOUT, text=True, env=env)
    if p.returncode != 0:
        return 1, 'dump-tables failed: ' + p.stdout[-300:]
    p = subprocess.run(['python3', os.path.join(root, 'tools', 'extract_tables.py'), os.path.join(out, 'tables.txt'),
                        os.path.join(root, 'lean', 'Fir', 'Generated')], stdout=subprocess.PIPE, stderr=subprocess.STDOUT, text=True)
    report['extract_tables'] = p.stdout.strip().splitlines()
    viol = [l for l in p.stdout.splitlines() if 'TABLE-VIOLATION' in l]
    report['table_violations'] = viol
    if p.returncode != 0:
        return 1, p.stdout[-300:]
    return 0, ''


CONFIG['C16'] = {
    'pre_build': [extract_color_tables],
    'runs': [{'profile': 'verif-dbg'}],
    'rule': "(X) the 16 tables are extracted from the running implementation through the public API (complete ramps through "
            "single-channel images) and become Lean literals with their own complete-domain checks; (H) all 16 complete tables again "
            "through multi-row images, compared entry by entry with the transfer functions evaluated by the model (Float32 powf); images "
            "with alpha at every position of rows of length 1..9, pixel types U8..U8x4 / U16..U16x4, all four depth combinations, both "
            "directions, both mappers, two-image and in-place; all 13 x 13 type pairs and a size mismatch for the rejection logic. "
            "distinct_nontrivial counts distinct request lines.",
    'trusted_base': COMMON_TB + [
        "tools/extract_tables.py + `fir-harness dump-tables` (the tables are those of the running code, not of a model)",
        "the clause 'every entry equals the documented transfer function rounded' rests on Lean Float32 / glibc powf agreeing with Rust's "
        "(observed entry by entry on every run, not proved)",
    ],
    'assumptions': ["the round-trip clause is claimed (and proved) for 8-bit sRGB -> 16-bit linear -> 8-bit sRGB only, as the property states; "
                    "gamma 2.2 loses the value 1 on that trip"],
    'partial': ["transfer-function accuracy of the table entries is by complete correspondence (all 2 x 2 x (256+256+65536+65536) entries), "
                "not by theorem: f32 powf is opaque to the kernel"],
    'level_text': "Machine-checked proof (Lean 4) over tables extracted from the running implementation on every run: each of the 16 tables is "
                  "monotone over its complete domain, fixes 0 and the maximum (decide +kernel, lifted to all index pairs by induction), and "
                  "the sRGB 8->16->8 round trip is the identity on all 256 values; the alpha-gap logic of the model is proved to pass exactly "
                  "the last component of 2- and 4-component pixels around the table for every row length, its source text pinned; the "
                  "model (tables recomputed with Float32 powf, gap logic, rejection table) is compared with the real mappers.",
    'level_note': "Trusted: Lean kernel, table extractor, harness/protocol; Float32/powf conformance observed, not proved.",
    'technique': "Lean 4 decide +kernel over complete extracted tables + structural theorems about the gap logic + differential correspondence",
}

CONFIG['C15'] = {
    'runs': [{'profile': 'verif-dbg'}],
    'rule': "CropBox::fit_src_into_dst_size on a boundary grid of sizes {1,2,3,5,7,16,255..257,1000,4093,32768,65521,65533..65535}^2 x "
            "destinations, plus seeded quadruples biased towards equal / nearly equal aspect ratios (60,000 quick, 2,000,000 thorough), "
            "centerings {0,0.5,1,-3,7,1/3,0.999999999,1e-300,+-inf,0.25,-0.0} and random ones; the result is compared bit for bit with the "
            "Lean Float mirror and judged against the property on the implementation's own values: accepted by the crate's crop "
            "validation, aspect ratio within 1e-14 relative, spans a dimension exactly, margin fraction = clamped centering; for sizes "
            "<= 64 a real resize with fit_into_destination must succeed. distinct_nontrivial counts distinct request lines.",
    'trusted_base': COMMON_TB + ["Lean Float (hardware binary64; + - * / and comparisons only, no libm) as the carrier of the executable mirror"],
    'assumptions': ["NaN centering is excluded (as in the property)",
                    "the ideal box is over the rationals with the tolerance eps of the 'already the needed ratio' branch as a parameter"],
    'partial': ["that the f64 evaluation stays inside the source in the last ulp (fl(fl(dw/dh)*sh) <= sw, fl(fl(sw-cw)*cx)+cw <= sw) is "
                "established by enumeration on every run, not by theorem: it needs a bit-level IEEE model"],
    'level_text': "Machine-checked proof (Lean 4) on the ideal rational crop box for all positive sizes and all centerings: inside the source, "
                  "destination aspect ratio (exact, or whole source when within eps), spans one dimension, margin fraction equals the "
                  "clamped centering; for the rounded computation in the code's operation order (fitF, any monotone rounding with fl 0 = 0) the box spans "
                  "one source dimension exactly, the origin is non-negative and at most the rounded margin, centering 0 gives origin 0; the Rust source text is pinned to a bit-exact Float mirror which is compared with the implementation "
                  "on ~150,000 quadruples per run, and the implementation's own results are judged against the property incl. acceptance "
                  "by the crate's crop validation.",
    'level_note': "Trusted: Lean kernel, harness/protocol, Lean Float = IEEE binary64. The f64 last-ulp in-bounds clause is by enumeration.",
    'technique': "Lean 4 theorems over the rational ideal (field arithmetic) + bit-exact Float mirror + differential correspondence",
}

RESIZE_TB = COMMON_TB + [
    "the hand-written executable model Fir.Model.{Filters,Resample,Resizer} (Float mirror of the coefficient computation, translated clip "
    "functions, control flow of resize_typed) is tied to the code by correspondence: every generated resize is answered by the model and "
    "compared byte for byte (integers) / bit for bit (floats, portable back-end)",
    "Lean Float / Float32 = hardware IEEE binary64 / binary32 and glibc sin/cos/exp as used by Rust (observed on every run by the bit-exact "
    "coefficient comparison, not proved)",
    "float clauses: theorems quantify over every rounding function with the stated premises (relative error u / monotone / exact on named "
    "integers / idempotent); Fir.Proofs.IeeeLemmas proves all four for round-to-nearest-even to p bits as IEEE-754 defines it (unbounded "
    "exponent) and the *_ieee corollaries instantiate them for binary64 / binary32 - trusted: the hardware implements that function, no "
    "overflow / underflow",
]
RESIZE_ASSUME = [
    "float tests in the control flow are opaque to the kernel: structural theorems hold for every value they can take (float-oblivious); "
    "the values they do take are compared with the implementation on every generated case",
    "SIMD kernels are compared with the same model (integers exactly); lane plumbing and load widths are not modelled",
]

def _resize_cfg(rule, level_text, partial, technique, extra_assume=()):
    return {
        'runs': [{'profile': 'verif-dbg'}],
        'rule': rule,
        'trusted_base': RESIZE_TB,
        'assumptions': RESIZE_ASSUME + list(extra_assume),
        'partial': partial,
        'level_text': level_text,
        'level_note': "Trusted: Lean kernel, rs2lean (clip functions, lists), harness/protocol, the hand-written executable model tied by "
                      "correspondence; IEEE/libm conformance of Lean Float observed, not proved.",
        'technique': technique,
    }

CONFIG['C12'] = _resize_cfg(
    "all 13 pixel types x random algorithm (Nearest / Convolution / Interpolation / SuperSampling, 7 filters) x alpha on/off x back-ends x "
    "typed / dynamic entry, source sizes 1..24, integer crop boxes whose size is the destination size (and the whole source): the "
    "implementation's result is judged against an independent pixel-by-pixel copy oracle and against the model; cases where only one "
    "dimension matches; SuperSampling(_, 1) with an integer aspect-preserving scale (intermediate = destination size) judged against the "
    "Nearest result. distinct_nontrivial = distinct request lines.",
    "Machine-checked proof (Lean 4) about the model of resize_typed: the copy fast path precedes the algorithm dispatch, so an "
    "integer-aligned crop of the destination's size is copied bit-exactly for every algorithm, pixel type and alpha setting; when one "
    "dimension matches no coefficients are computed for it and the remaining pass is column-local; a same-size super-sampling intermediate "
    "is copied. Tied to the code by correspondence with an independent copy oracle.",
    [], "Lean 4 theorems over the control-flow model (float-oblivious) + differential correspondence with copy oracle")

CONFIG['C11'] = _resize_cfg(
    "Nearest for all 13 pixel types, sizes 1..64 plus 1xN / Nx1 with N up to 3000 and up-scales to 200, crops: none, integer, fractional, "
    "edge-flush, sub-pixel, boxes within one ulp of the right / bottom edge (widths down to 2^-53 of the size), and destinations within a "
    "fraction of (or exactly) the crop size with origins whole, fractional or 1e-7 .. 1e-12 beside a whole number; typed, dynamic and "
    "cropped-view sources. Oracle: destination pixel (x, y) must be the source pixel at floor(left + (x+1/2)*cw/dw), floor(top + ...) "
    "computed in exact rational arithmetic from the f64 bit patterns; within 2^-40 of an integer either neighbour inside the source is accepted.",
    "Machine-checked proof (Lean 4) about the model of resample_nearest: every destination component is a bit-exact copy of a source "
    "component whose column / row index is always inside the source, independent of pixel type and alpha setting; the stateful row loop "
    "(forward-only iterator, cached row, next_row_y) is proved to hand out exactly the requested rows for every non-decreasing request "
    "sequence, and the requests are non-decreasing for every monotone rounding (row_cursor_eq_direct, requested_rows_sorted); the equality of those "
    "indices with the exact rational coordinate is checked on every generated case (float-noise clause).",
    ["that the f64 index computation equals the exact floor is established per case by an exact rational oracle, not by theorem"],
    "Lean 4 theorems over the nearest model + differential correspondence with an exact rational oracle")

CONFIG['C05'] = _resize_cfg(
    "every case is run twice with two sentinel fills (0xA5, 0x5A) of the whole destination buffer; destinations: exact buffer, longer "
    "buffer with offset, mutable cropped view with margins, flush crop in an offset parent, nested crop; sources likewise; all 13 pixel "
    "types, all algorithms incl. SuperSampling with multiplicities 1..8 on aspect-preserving and non-preserving down-scales, erroring and "
    "zero-area crop boxes; plus the other operations the property names: alpha multiply / divide (two-image and in-place, all back-ends) through "
    "5 x 5 source / destination placements with whole buffers compared, component conversion and colour mapping (both mappers, both "
    "directions, 8 <-> 16 bit, 1..4 components) into longer buffers and mutable cropped views against the exact-size result. Oracle: the set of buffer pixels that differ from the sentinel in either run must be exactly the destination "
    "rectangle (or empty on error / zero size), written values must not depend on the sentinel, the source buffer must be unchanged.",
    "Machine-checked proof (Lean 4): results reach memory only through the row index lists of the destination view - every pixel of the "
    "rectangle is assigned, nothing outside changes (injectImg lemmas over the view model, any nesting); the logical result does not "
    "depend on the previous destination content whenever a pass / Nearest / copy runs, and the destination is returned untouched on a "
    "crop error or zero dimension. Tied to the code by the two-sentinel write-set oracle over all container kinds.",
    ["alpha operations / colour mapping / component conversion write sets are covered by their own checks (C06, C16, C17) on exact buffers only",
     "rayon thread counts for the write set are covered by C08's byte comparison"],
    "Lean 4 theorems over view index lists and the control-flow model + two-sentinel write-set oracle")

CONFIG['C13'] = _resize_cfg(
    "each logical resize (13 pixel types, random geometry / crop / algorithm / alpha / back-end) is executed through a plain typed image and "
    "through three further container combinations: typed images at an offset of a longer buffer, cropped views with margins, flush crops, "
    "nested crops, Image / ImageRef / CroppedImage(Mut) through the dynamic entry point; parents are filled with poison values; alpha "
    "operations, component conversion and colour mapping through the same kinds of containers (whole buffers compared with the exact-size result). Oracle "
    "(harness): the logical destination pixels must be identical to those of the plain run; every run is also compared with the model.",
    "Machine-checked proof (Lean 4): an operation of the model sees images only through extractImg / injectImg over the view's row index "
    "lists; reading depends only on the exposed pixels, write-then-read through any well-formed view returns the logical image, hence equal "
    "logical inputs give equal logical results for any two layouts. Tied to the real containers by running the same logical operation "
    "through five placements and both entry points.",
    ["that SIMD loads past a row end never influence a result lane is covered by poisoned parents in the correspondence, not proved"],
    "Lean 4 theorems over view index lists + metamorphic correspondence across containers")

CONFIG['C09'] = _resize_cfg(
    "sequences of 2..12 operations on one Resizer: resizes mixing all 13 pixel types (pixel sizes 1..16), tiny and large sizes in both "
    "orders, all algorithms, alpha on/off, crops, erroring calls, reset_internal_buffers and clone; every output is compared with the output "
    "of a fresh Resizer for the same call (and with the model).",
    "Machine-checked proof (Lean 4) on the Resizer state machine (grow-only scratch buffers with arbitrary content, reset, clone): the "
    "outcome of every operation is independent of the state, so the k-th outcome of any history equals that of a fresh resizer; buffers "
    "never shrink and an aligned slice always holds the requested pixels. That scratch content cannot leak rests on every temporary being "
    "fully overwritten (C05 theorems); tied to the real buffers by op-sequence correspondence.",
    ["the state machine abstracts buffer *content* as irrelevant by construction; that the real code never reads stale scratch content is "
     "tied by correspondence (sequences vs fresh resizer), not derived from the Rust source"],
    "Lean 4 theorems over a state-machine model (induction over histories) + op-sequence differential correspondence")

CONFIG['C10'] = _resize_cfg(
    "(a) uniform images: all 13 pixel types, every 8-bit value, extremes / mid / special values for wider types, sizes 1..48 plus extreme "
    "down-scales (500..4000 : 1..5) and up-scales, crops, 7 filters, Convolution / Interpolation / SuperSampling, back-ends, alpha off or at "
    "its maximum; oracle: every destination component equals the source value (f32: one ulp). (b) the implementation's coefficients "
    "through the hook for every (in, out) pair up to 24 (thorough 128) x 7 filters and seeded geometries up to 8000:1: compared bit for "
    "bit with the model's Float mirror, and QuantOK evaluated on the real i16 / i32 coefficients at the maximum component value.",
    "Machine-checked proof (Lean 4) about passInt, the arithmetic of one destination component: if the window's integer coefficients "
    "satisfy QuantOK the pass maps a constant row to exactly that constant (all 256 / 65,536 values, every window length and precision), "
    "two passes compose; QuantOK holds whenever m*|sum - 2^p| < 2^(p-1). QuantOK itself is discharged by evaluation on the "
    "implementation's real coefficients for every enumerated geometry (enumeration, said so), and holds unconditionally up to 8,222 taps; "
    "I32 / F32: a constant row through the f64 accumulation (any summation tree) deviates by at most the accumulated rounding plus the defect of "
    "the weight sum from 1 (uniform_float, uniform_i32).",
    ["'all geometries' is by enumeration of QuantOK on real coefficients, not by theorem",
     "beyond ~8,222 taps QuantOK can fail: known finding F17 (13678:1 Box, value 255 -> 254), negation proved (quantOK_fails_at_13678_taps)",
     "I32 / F32: uniform_float bounds the deviation by the accumulated rounding gamma(depth)*|v|*sum|k| + |v|*|sum k - 1| for every summation "
     "order under the standard rounding model (RelErr premise = IEEE, trusted); that this stays below 1/2 (I32) / one ulp (F32) for a concrete "
     "geometry is checked by the oracle on the real weights"],
    "Lean 4 theorems over the fixed-point pass arithmetic (omega) + per-geometry discharge of QuantOK on real coefficients + uniform-image oracle")

CONFIG['C18'] = _resize_cfg(
    "non-negative filters (Box, Bilinear, Hamming, Gaussian), alpha off, all 13 pixel types, Convolution / Interpolation / SuperSampling, "
    "back-ends, crops; value ranges anywhere in the component range incl. touching 0 / max and negative I32; each case is a pair of images "
    "ordered component-wise; oracles: every destination component within [min, max] of its source channel, and got(A) <= got(B) (f32: one "
    "ulp). Plus the implementation's coefficients through the hook: all quantised coefficients of the four filters must be >= 0.",
    "Machine-checked proof (Lean 4) about passInt: with non-negative integer coefficients the exact dot product, the shift and the clip "
    "are monotone, so the pass preserves order (8 and 16 bit), and with QuantOK at the two range ends the result stays inside the range "
    "of its inputs; madd_epi16 pair products cannot overflow. Non-negativity of the real coefficients and QuantOK are discharged on the "
    "implementation's own numbers; for I32 / F32 the rounded f64 accumulation is monotone in every sample for every monotone rounding and "
    "every summation order (portable loop and SIMD lanes), so order is preserved exactly and results lie between the results of the constant "
    "rows lo and hi.",
    ["sign of the f64 Hamming / Gaussian kernel values is checked on the real coefficients, not proved (libm)",
     "I32 / F32: order preservation and no-overshoot are theorems for every monotone rounding (float_pass_monotone, float_tree_monotone, "
     "float_range); that IEEE round-to-nearest is monotone is a premise (trusted base)"],
    "Lean 4 theorems over the fixed-point pass arithmetic + ordered-pair / range oracle + sign check of real coefficients")

CONFIG['C07'] = _resize_cfg(
    "six alpha pixel types, alpha handling on, Convolution / Interpolation / SuperSampling, 7 filters, back-ends, crops; sources with "
    "transparent regions of random shape (single pixels, whole rows); each case is a pair that differs only in the colours stored under "
    "alpha = 0 (oracle: identical results), destination pixels with alpha 0 must have colour 0; fully opaque sources are run with alpha "
    "handling on and off (oracle: identical). The oracles apply to calls that reach a convolution (see assumptions).",
    "Machine-checked proof (Lean 4): multiplying by alpha 0 gives 0 and dividing by alpha 0 gives colour 0 (translated code, both depths), so "
    "two sources that differ only under alpha = 0 have the same premultiplied image and the alpha-aware convolution returns identical "
    "results for every geometry / filter; multiply and divide never change alpha; for opaque pixels multiply and divide are the identity "
    "(all 256 / 65,536 values). Tied by metamorphic pairs through the real resizer.",
    ["opaque source = alpha-off result additionally needs the resampled alpha to stay maximal (C10's QuantOK); checked by the oracle"],
    "Lean 4 theorems over translated alpha arithmetic and the control-flow model + metamorphic correspondence",
    ["C12 demands a bit-exact copy for same-size calls with every alpha setting; a copy keeps colours under alpha = 0, so C07 is claimed for "
     "calls that reach a convolution (not the copy fast path, not a same-size super-sampling intermediate)"])

CONFIG['C01'] = _resize_cfg(
    "(L2) whole resizes: 13 pixel types x 7 filters x {Convolution, Interpolation, SuperSampling m in 1,2,3,8, Nearest} x sizes 1..40 (some "
    "to 160) incl. 1<->N, crops (integer, fractional, edge-flush, sub-pixel, fit) x back-ends x alpha on/off x contents {random, extremes, "
    "checkerboards}; the model computes the destination from its own coefficient mirror and must agree byte for byte (f32 on SIMD: a few "
    "ulps). (L1) the implementation's coefficients (windows, f64 weights bit for bit, precisions, quantised integers) for every (in, out) "
    "pair up to 12 (thorough 40) x 7 filters and seeded geometries.",
    "Machine-checked proof (Lean 4) about passInt: the result is the exact fixed-point sum rounded to nearest (within half a unit) and "
    "clamped; against ideal rational weights the error of a pass is at most 1/2 + n*m/2^(p+1) when each integer coefficient is the ideal "
    "one rounded; clamping is 1-Lipschitz and a second pass adds sum|w| times the first error; SuperSampling is the convolution of the "
    "nearest intermediate (control flow); for I32 / F32 the f64 accumulation of n taps is within ((1+u)^(n+1)-1)*sum|x k| of the exact sum "
    "for every rounding with relative error u and every summation order, then half a unit (I32) or one binary32 rounding (F32). The executable model (bit-exact Float mirror of the kernels and of precompute_coefficients) "
    "reproduces the implementation on every generated case.",
    ["accuracy of the f64 evaluation of the kernels and of their normalisation (libm) is not a theorem: the implementation's weights are "
     "compared bit for bit with the model's mirror, which evaluates the documented formulas",
     "I32 / F32: pass_err_f64 / pass_err_i32 / pass_err_f32 bound the error under the standard model of rounding (relative error u per "
     "operation - a premise about IEEE arithmetic, trusted); overflow / saturation of the final cast is excluded by hypothesis"],
    "Lean 4 theorems over the fixed-point pass arithmetic (integers + rationals) + bit-exact executable mirror with differential correspondence")

CONFIG['C02'] = _resize_cfg(
    "(a) single convolution passes through the crate-private Convolution trait (hook wrappers) with synthetic coefficient sets: 13 pixel "
    "types x {horizontal, vertical} x kernel lengths 1..26 (every residue mod 8) and 40..520 taps x destination widths 1..35 (every residue "
    "of width*channels mod 32) x heights (every residue mod 4) x offsets 0..2 x weight styles (non-negative, negative lobes, strong "
    "alternation, tiny weights: precisions 13..21 all reached inside the head-room) x back-ends none / sse4 / avx2; (b) whole resizes on "
    "SSE4.1 and AVX2 against the portable back-end (all types, algorithms, crops, alpha on/off); (c) alpha multiply / divide images (C06's "
    "generator, incl. cropped / nested views and the constant tables read through the hooks). Oracle: integer formats byte-identical to the portable back-end (16-bit alpha division: each component must equal the portable result or the exact soft-float evaluation of the f32 lane), f32 within a few ulps.",
    "Machine-checked proof (Lean 4): any chunking / re-association of an integer dot product, with exact or wrapping accumulators, gives "
    "the same sum; the SIMD finishing sequence srai -> packs_epi32 -> packus_epi16 equals the translated clip table for every 32-bit "
    "accumulator and precision, and Normalizer32::clip equals the packus_epi32 clamp; madd_epi16 pair products are exact; the SIMD 8-bit "
    "alpha-division lane (f32 reciprocal, cvtps_epi32, slli 7, mulhrs_epi16, min_epu16 with 255) equals the portable recip-table division "
    "for all 65,536 (colour, alpha) pairs (exact soft-float, decide +kernel), and the intrinsic skeleton of the four kernels is pinned "
    "to the source on every run; the SIMD 16-bit alpha-division lane (mul_ps by 65535, div_ps, min_ps, cvtps_epi32) is faithful and "
    "saturating for all 2^32 pairs under the standard rounding model, hence within one unit of the portable division "
    "(simd_div16_within_one; intrinsic multiset pinned to the source); two summation orders of the rounded f64 products differ by at "
    "most the sum of their error bounds (reassoc_err); one SIMD pass is modelled down to the bytes of its registers - "
    "horiz_convolution_one_row and horiz_convolution_four_rows of src/convolution/u8x4/sse4.rs: 16-byte loads, pshufb with the seven masks taken from the source, "
    "madd_epi16, add_epi32, the 8 / 4 / 2 / 1 coefficient steps, srai / packs / packus - and proved equal to the portable kernel for every "
    "precision, coefficient list and source row (u8x4_sse4_one_row_eq_portable / _eq_passInt, u8x4_sse4_four_rows_eq_portable). The lane plumbing of the other kernels is tied by correspondence over every remainder branch of every kernel.",
    ["shuffle masks, lane placement and load widths are modelled and proved for every SIMD convolution kernel of U8x4 and the vertical kernels of all 8-bit types (U8x4 SSE4.1 horizontal pass: "
     "u8x4_sse4_one_row_eq_portable, u8x4_sse4_four_rows_eq_portable, masks re-extracted from the source; SSE4.1 vertical pass of all 8-bit "
     "types: vert_u8_sse4_chunk32/8/4_eq_portable, its AVX2 twin, the AVX2 four-row U8x4 kernel by reduction to the 128-bit halves, the AVX2 one-row kernel u8x4_avx2_one_row_eq_portable; call sequences pinned, the lane models also executed against the real kernels); for all "
     "other kernels (the SSE4.1 vertical pass of the 16-bit types is proved as well: vert_u16_sse4_chunk16/8/4_eq_portable, AVX2 twin by halves; not modelled: horizontal 16-bit kernels, float, the remaining horizontal kernels of U8 / U8x2 / U8x3 - the SSE4.1 kernels of U8 and of U8x3 are proved too, the latter incl. their width-dependent loop exits -, alpha kernels) they are tied by "
     "correspondence only; NEON and WASM kernels cannot be executed here",
     "float formats: reassoc_err bounds the difference of two summation orders by (gamma(d)+gamma(d'))*sum|x k| under the standard rounding "
     "model (premise); the oracle applies a tolerance of a few f32 ulps",
     "16-bit SIMD alpha division: faithfulness is proved under the standard model of binary32 rounding (two roundings, relative error 2^-24: "
     "premise); the exact soft-float lane model used by the correspondence is tied to the hardware by the run, not by theorem"],
    "Lean 4 theorems over integer dot products and the translated clip functions + exhaustive-residue differential correspondence across back-ends")

CONFIG['C03'] = _resize_cfg(
    "malformed stream through the safe public API, executed in BOTH the debug-assertion profile (opt-level 1, overflow checks) and the "
    "optimised profile, source and destination placed flush against inaccessible guard pages (mmap / mprotect): sizes 0 and 1, crop boxes "
    "with NaN, +-inf, negative, -0.0, denormal, sub-ulp, edge-flush and oversized fields, fit-cropping with extreme centering, every "
    "algorithm incl. SuperSampling multiplicities 0, 1, 2, 7, 100, 255, custom kernels (moderate and large negative lobes, ring kernel that "
    "vanishes around 0, supports 0.01 .. 60 and valid but huge ones 4e9, 1e19, 1e300, f64::MAX, scale factors 1e-300 .. 1e300 and negative), all 13 pixel types, back-ends, typed / dynamic "
    "entry, exact / oversized / strided / nested containers, fresh and reused resizers. Oracle: the outcome is Ok or a documented error, "
    "never a panic (inside the documented head-room sum|w| < 4; outside it only crashes count) and never a crash; inside the head-room the "
    "destination bytes are also compared with the model. The case being executed is recorded so that a crash is attributed to its input.",
    "Machine-checked proof (Lean 4), float-oblivious and for all inputs: every coefficient window lies inside the source and its bound "
    "arithmetic cannot underflow, for every zero-test (any kernel, NaN weights included); the temporary image of a two-pass resize "
    "contains every shifted window; the clip-table index is inside the 1280-entry table and computed without overflow for every "
    "accumulator and precision (translated code); for every monotone integer-exact rounding x_min <= x_max <= in_size and every window "
    "fits the min(2*ceil(r)+1, in_size) slots reserved for it (xmin_le_xmax, span_le_window); every reachable precision has a dispatch arm (translated arm list); together with the "
    "overflow-freedom theorems of C04, C06, C08, C17 and the in-bounds theorems of C09, C11. Outcome classes are compared with the real "
    "code in two build profiles behind guard pages.",
    ["SIMD load footprints are covered by guard pages in the correspondence; for one kernel (U8x3, SSE4.1, one row: 16- / 8-byte loads over "
     "3-byte pixels with width-dependent loop exits) they are a theorem (u8x3_sse4_one_row_loads_in_row); the allocator and rayon internals are outside",
     "memory safety of the unsafe blocks is argued from the index theorems; the Rust code itself is not verified (no Rust semantics in Lean)",
     "custom kernels are drawn from three parametric families that exist on both sides of the protocol"],
    "Lean 4 theorems over a float-oblivious bounds model and translated index arithmetic + outcome-class correspondence in two profiles with guard pages")
CONFIG['C03']['runs'] = [{'profile': 'verif-dbg'}, {'profile': 'verif-rel'}]
