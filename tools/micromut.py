#!/usr/bin/env python3
"""micromut.py [--keep] : measures how many one-token changes to the *translated* Rust functions break a proof
obligation by themselves (before any correspondence run).  Works on scratch copies only: /repo/src is copied to
a scratch directory, the Lean project to another; /repo and /verif/lean are never touched.

For every micro-mutant: copy pristine src -> apply the edit -> tools/rs2lean.py into the scratch Lean project ->
`lake build` of the property modules that import the changed generated file.
  translation error      -> caught (tie broken: TranslationError)
  lake build fails       -> caught (proof obligation no longer checks)
  build passes           -> survived the proof layer (left to the correspondence check)
Prints one line per mutant and a summary; writes work/micromut.json."""
import json, os, shutil, subprocess, sys, time

ROOT = os.path.dirname(os.path.dirname(os.path.abspath(__file__)))
SCR = os.environ.get('MICROMUT_SCRATCH', '/tmp/probe/micromut')
SRC0 = '/repo/src'

# (id, file, old, new, property modules to build)
M = [
 # alpha arithmetic
 ('mul255-round',   'alpha/common.rs', 'a as u32 * b as u32 + 128;', 'a as u32 * b as u32 + 127;', ['C06', 'C07']),
 ('mul255-shift',   'alpha/common.rs', '(((tmp >> 8) + tmp) >> 8) as u8', '(((tmp >> 8) + tmp) >> 7) as u8', ['C06']),
 ('mul255-noadd',   'alpha/common.rs', '(((tmp >> 8) + tmp) >> 8) as u8', '((tmp + 0) >> 8) as u8', ['C06']),
 ('mul65535-round', 'alpha/common.rs', '+ 0x8000;', '+ 0x7fff;', ['C06']),
 ('mul65535-shift', 'alpha/common.rs', '(((tmp >> 16) + tmp) >> 16) as u16', '(((tmp >> 15) + tmp) >> 16) as u16', ['C06']),
 ('recip8-round',   'alpha/common.rs', 'res[i] = ((scaled_max / i as u32) + 1) >> 1;', 'res[i] = (scaled_max / i as u32) >> 1;', ['C06']),
 ('recip16-round',  'alpha/common.rs', 'res[i] = ((scaled_max / i as u64) + 1) >> 1;', 'res[i] = ((scaled_max / i as u64) + 2) >> 1;', ['C06']),
 ('recip8-scale',   'alpha/common.rs', 'let scaled_max = 255 * scale;', 'let scaled_max = 256 * scale;', ['C06']),
 ('recip16-scale',  'alpha/common.rs', 'let scaled_max = 0xffff * scale;', 'let scaled_max = 0x10000 * scale;', ['C06']),
 ('precision8',     'alpha/common.rs', 'const PRECISION: u32 = 8;', 'const PRECISION: u32 = 7;', ['C06', 'C02']),
 ('precision16',    'alpha/common.rs', 'const PRECISION16: u64 = 33;', 'const PRECISION16: u64 = 31;', ['C06']),
 ('div8-clip',      'alpha/common.rs', '>> PRECISION).min(0xff) as u8', '>> PRECISION).min(0x100) as u8', ['C06', 'C02']),
 ('div8-round',     'alpha/common.rs', 'const ROUND_CORRECTION: u32 = 1 << (PRECISION - 1);', 'const ROUND_CORRECTION: u32 = 1 << PRECISION;', ['C06', 'C02']),
 ('div16-clip',     'alpha/common.rs', '.min(0xffff) as u16', '.min(0xfffe) as u16', ['C06']),
 ('div16-nosat',    'alpha/common.rs', '.saturating_mul(recip_alpha)', '.wrapping_mul(recip_alpha)', ['C06']),
 ('div16-round',    'alpha/common.rs', 'const ROUND_CORRECTION16: u64 = 1 << (PRECISION16 - 1);', 'const ROUND_CORRECTION16: u64 = 1 << (PRECISION16 - 2);', ['C06']),
 # crop validation
 ('crop-ge',        'images/typed_cropped_image.rs', 'if left >= img_width || top >= img_height {', 'if left > img_width || top >= img_height {', ['C04']),
 ('crop-and',       'images/typed_cropped_image.rs', 'if left >= img_width || top >= img_height {', 'if left >= img_width && top >= img_height {', ['C04']),
 ('crop-size',      'images/typed_cropped_image.rs', 'if width > img_width - left || height > img_height - top {', 'if width >= img_width - left || height > img_height - top {', ['C04']),
 ('crop-swap',      'images/typed_cropped_image.rs', 'height > img_height - top {', 'height > img_height - left {', ['C04']),
 # band arithmetic
 ('bands-area32',   'threading.rs', 'let area = height as u64 * height.max(width) as u64;', 'let area = (height * height.max(width)) as u64;', ['C08']),
 ('bands-min0',     'threading.rs', 'height / min_height.max(1)', 'height / min_height', ['C08']),
 ('bands-more',     'threading.rs', 'width / min_width.max(1)', 'width / min_width.max(1) + 1', ['C08']),
 ('bands-guard',    'threading.rs', 'if width == 0 || height == 0 {\n        return 1;\n    }\n    // The area of images with 65536 or more rows/columns doesn\'t fit into u32.\n    let area = height', 'if width == 0 {\n        return 1;\n    }\n    // The area of images with 65536 or more rows/columns doesn\'t fit into u32.\n    let area = height', ['C08']),
 # component conversions
 ('u8u16',          'pixels.rs', 'u16::from_le_bytes([self, self])', 'u16::from_le_bytes([0, self])', ['C17']),
 ('u16u8',          'pixels.rs', 'self.to_le_bytes()[1]', 'self.to_le_bytes()[0]', ['C17']),
 ('u8i32',          'pixels.rs', '(self as i32) << 23', '(self as i32) << 24', ['C17']),
 ('u16i32',         'pixels.rs', '(self as i32) << 15', '(self as i32) << 14', ['C17']),
 ('i32u8-round',    'pixels.rs', 'self.max(0).saturating_add(1 << 22) >> 23', 'self.max(0).saturating_add(1 << 23) >> 23', ['C17']),
 ('i32u8-nosat',    'pixels.rs', '(self.max(0).saturating_add(1 << 22) >> 23) as u8', '(self.max(0).wrapping_add(1 << 22) >> 23) as u8', ['C17']),
 ('i32u16-nomax',   'pixels.rs', '(self.max(0).saturating_add(1 << 14) >> 15) as u16', '(self.saturating_add(1 << 14) >> 15) as u16', ['C17']),
 # clip table / clip functions / constants / dispatch arms
 ('clip-table-255', 'convolution/optimisations.rs', 'while i < 640 + 255 {', 'while i < 640 + 254 {', ['C02', 'C03']),
 ('clip-table-off', 'convolution/optimisations.rs', 'table[i] = (i - 640) as u8;', 'table[i] = (i - 639) as u8;', ['C02']),
 ('clip-clamp',     'convolution/optimisations.rs', '.clamp(-640, 639) + 640) as usize', '.clamp(-640, 640) + 640) as usize', ['C03']),
 ('clip-offset',    'convolution/optimisations.rs', '.clamp(-640, 639) + 640) as usize', '.clamp(-640, 639) + 641) as usize', ['C03', 'C02']),
 ('precision-bits', 'convolution/optimisations.rs', 'const PRECISION_BITS: u8 = 32 - 8 - 2;', 'const PRECISION_BITS: u8 = 32 - 8 - 1;', ['C03', 'C01']),
 ('clip32-max',     'convolution/optimisations.rs', 'const PRECISION16_BITS: u8 = 64 - 16 - 2;', 'const PRECISION16_BITS: u8 = 64 - 16;', ['C03', 'C01', 'C10']),
 ('constify-arm',   'convolution/macros.rs', '            17 => ', '            57 => ', ['C03']),
 # constructors' sizes
 ('size-nosat',     'images/image.rs', '(width as usize * height as usize).saturating_mul(pixel_type.size())', '(width as usize * height as usize).wrapping_mul(pixel_type.size())', ['C04']),
 ('size-u32',       'images/image.rs', '(width as usize * height as usize).saturating_mul(pixel_type.size())', '((width * height) as usize).saturating_mul(pixel_type.size())', ['C04']),
 # lists
 ('ss-threshold',   'resizer.rs', 'factor > 1.2', 'factor > 1.5', ['C01']),
 # the lane-accurate SIMD kernel (U8x4, SSE4.1, one row): masks are used by the model, the call sequence is pinned
 ('simd-mask-sh1',  'convolution/u8x4/sse4.rs', 'let sh1 = _mm_set_epi8(-1, 11, -1, 3, -1, 10,', 'let sh1 = _mm_set_epi8(-1, 11, -1, 7, -1, 10,', ['C02']),
 ('simd-mask-sh6',  'convolution/u8x4/sse4.rs', '15, 14, 11, 10, 15, 14, 11, 10, 15, 14, 11, 10, 15, 14, 11, 10,', '15, 14, 11, 10, 15, 14, 11, 10, 15, 14, 11, 10, 15, 14, 9, 8,', ['C02']),
 ('simd-mask-sh7',  'convolution/u8x4/sse4.rs', 'let sh7 = _mm_set_epi8(-1, 7, -1, 3,', 'let sh7 = _mm_set_epi8(-1, 7, 3, -1,', ['C02']),
 ('simd-load-x4',   'convolution/u8x4/sse4.rs', 'source = simd_utils::loadu_si128(src_row, x + 4);\n\n            pix = _mm_shuffle_epi8(source, sh1);\n            mmk = _mm_shuffle_epi8(ksource, sh5);', 'source = simd_utils::loadu_si128(src_row, x + 3);\n\n            pix = _mm_shuffle_epi8(source, sh1);\n            mmk = _mm_shuffle_epi8(ksource, sh5);', ['C02']),
 ('simd4-mask-hi',  'convolution/u8x4/sse4.rs', 'let mask_hi = _mm_set_epi8(-1, 15, -1, 11,', 'let mask_hi = _mm_set_epi8(-1, 15, -1, 10,', ['C02']),
 ('simd4-clone',    'convolution/u8x4/sse4.rs', 'simd_utils::mm_load_and_clone_i16x2(&k[2..]);', 'simd_utils::mm_load_and_clone_i16x2(&k[1..]);', ['C02']),
 ('vert-unpack',    'convolution/vertical_u8/sse4.rs', 'let source = _mm_unpacklo_epi8(source1, source2);\n            let pix = _mm_unpacklo_epi8(source, _mm_setzero_si128());\n            sss0 =', 'let source = _mm_unpackhi_epi8(source1, source2);\n            let pix = _mm_unpacklo_epi8(source, _mm_setzero_si128());\n            sss0 =', ['C02']),
 ('avx2-mask-sh2',  'convolution/u8x4/avx2.rs', '        11, 10, 9, 8, 11, 10, 9, 8, 11, 10, 9, 8, 11, 10, 9, 8,\n        3, 2, 1, 0, 3, 2, 1, 0, 3, 2, 1, 0, 3, 2, 1, 0,', '        11, 10, 9, 8, 11, 10, 9, 8, 11, 10, 9, 8, 11, 10, 9, 8,\n        7, 6, 5, 4, 3, 2, 1, 0, 3, 2, 1, 0, 3, 2, 1, 0,', ['C02']),
 ('avx2-half-init', 'convolution/u8x4/avx2.rs', '_mm256_set1_epi32(1 << (PRECISION - 2));', '_mm256_set1_epi32(1 << (PRECISION - 1));', ['C02']),
 ('u8x3-maxx',      'convolution/u8x3/sse4.rs', 'let max_x = src_width.saturating_sub(5);\n        if x < max_x {\n            let coeffs_by_4 = coeffs.chunks_exact(4);\n            for k in coeffs_by_4 {\n                let ksource = simd_utils::loadl_epi64(k, 0);\n                let source = simd_utils::loadu_si128(src_row, x);\n\n                let pix = _mm_shuffle_epi8(source, pix_sh1);', 'let max_x = src_width.saturating_sub(4);\n        if x < max_x {\n            let coeffs_by_4 = coeffs.chunks_exact(4);\n            for k in coeffs_by_4 {\n                let ksource = simd_utils::loadl_epi64(k, 0);\n                let source = simd_utils::loadu_si128(src_row, x);\n\n                let pix = _mm_shuffle_epi8(source, pix_sh1);', ['C02', 'C03']),
 ('u8x3-mask',      'convolution/u8x3/sse4.rs', '-1, -1, -1, -1, -1, 11, -1, 8, -1, 10, -1, 7, -1, 9, -1, 6,', '-1, -1, -1, -1, -1, 11, -1, 8, -1, 10, -1, 7, -1, 9, -1, 5,', ['C02']),
 ('u8x2-mask4',     'convolution/u8x2/sse4.rs', '-1, 7, -1, 5, -1, 3, -1, 1, -1, 6, -1, 4, -1, 2, -1, 0,', '-1, 7, -1, 5, -1, 3, -1, 1, -1, 6, -1, 2, -1, 4, -1, 0,', ['C02']),
 ('u8x2-coeffmask', 'convolution/u8x2/sse4.rs', '15, 14, 13, 12, 15, 14, 13, 12, 11, 10, 9, 8, 11, 10, 9, 8,', '15, 14, 13, 12, 15, 14, 13, 12, 11, 10, 9, 8, 9, 8, 11, 10,', ['C02']),
 ('u8x2-init',      'convolution/u8x2/sse4.rs', 'let mut sss = _mm_set1_epi32(1 << (precision - 2));', 'let mut sss = _mm_set1_epi32(1 << (precision - 1));', ['C02']),
 ('u8x2-wrapadd',   'convolution/u8x2/sse4.rs', 'let a32 = ((lo >> 32) as i32).saturating_add((hi >> 32) as i32);', 'let a32 = ((lo >> 32) as i32).wrapping_add((hi >> 32) as i32);', ['C02']),
 ('u16x1-mask',     'convolution/u16x1/sse4.rs', 'let l23_shuffle = _mm_set_epi8(-1, -1, -1, -1, -1, -1, 7, 6, -1, -1, -1, -1, -1, -1, 5, 4);', 'let l23_shuffle = _mm_set_epi8(-1, -1, -1, -1, -1, -1, 7, 6, -1, -1, -1, -1, -1, -1, 5, 5);', ['C02']),
 ('u16x1-four-mask','convolution/u16x1/sse4.rs', 'let l4l5_shuffle = _mm_set_epi8(-1, -1, -1, -1, -1, -1, 11, 10, -1, -1, -1, -1, -1, -1, 9, 8);', 'let l4l5_shuffle = _mm_set_epi8(-1, -1, -1, -1, -1, -1, 11, 10, -1, -1, -1, -1, -1, 9, -1, 8);', ['C02']),
 ('u16x1-coeffswap','convolution/u16x1/sse4.rs', 'let coeff23_i64x2 = _mm_set_epi64x(k[3] as i64, k[2] as i64);', 'let coeff23_i64x2 = _mm_set_epi64x(k[2] as i64, k[3] as i64);', ['C02']),
 ('u16x2-mask',     'convolution/u16x2/sse4.rs', 'let p2_shuffle = _mm_set_epi8(-1, -1, -1, -1, -1, -1, 11, 10, -1, -1, -1, -1, -1, -1, 9, 8);', 'let p2_shuffle = _mm_set_epi8(-1, -1, -1, -1, -1, -1, 9, 8, -1, -1, -1, -1, -1, -1, 11, 10);', ['C02']),
 ('u16x3-mask',     'convolution/u16x3/sse4.rs', 'let bb_shuffle = _mm_set_epi8(-1, -1, -1, -1, -1, -1, 11, 10, -1, -1, -1, -1, -1, -1, 5, 4);', 'let bb_shuffle = _mm_set_epi8(-1, -1, -1, -1, -1, -1, 11, 10, -1, -1, -1, -1, -1, -1, 3, 2);', ['C02']),
 ('u16x3-guard',    'convolution/u16x3/sse4.rs', 'if width - end_x >= 1 {', 'if width - end_x >= 0 {', ['C02']),
 ('u16x3-bbinit',   'convolution/u16x3/sse4.rs', 'let bb_initial = _mm_set1_epi64x(1 << (precision - 2));', 'let bb_initial = _mm_set1_epi64x(1 << (precision - 1));', ['C02']),
 ('u16x4-mask',     'convolution/u16x4/sse4.rs', 'let ba0_shuffle = _mm_set_epi8(-1, -1, -1, -1, -1, -1, 7, 6, -1, -1, -1, -1, -1, -1, 5, 4);', 'let ba0_shuffle = _mm_set_epi8(-1, -1, -1, -1, -1, -1, 5, 4, -1, -1, -1, -1, -1, -1, 7, 6);', ['C02']),
 ('u16x4-avx2-mask','convolution/u16x4/avx2.rs', '-1, -1, -1, -1, -1, -1, 15, 14, -1, -1, -1, -1, -1, -1, 13, 12,\n        -1, -1, -1, -1, -1, -1, 15, 14, -1, -1, -1, -1, -1, -1, 13, 12,', '-1, -1, -1, -1, -1, -1, 15, 14, -1, -1, -1, -1, -1, -1, 13, 12,\n        -1, -1, -1, -1, -1, -1, 15, 14, -1, -1, -1, -1, -1, -1, 11, 12,', ['C02']),
 ('u16x4-avx2-join','convolution/u16x4/avx2.rs', 'normalizer.clip(rg_buf[1] + rg_buf[3] + half_error),', 'normalizer.clip(rg_buf[1] + rg_buf[2] + half_error),', ['C02']),
 ('u16x1-avx2-coef', 'convolution/u16x1/avx2.rs', '_mm256_set_epi64x(k[9] as i64, k[8] as i64, k[1] as i64, k[0] as i64);', '_mm256_set_epi64x(k[8] as i64, k[9] as i64, k[1] as i64, k[0] as i64);', ['C02']),
 ('u16x1-avx2-load', 'convolution/u16x1/avx2.rs', 'simd_utils::loadl_epi64(src_row, x + 4),', 'simd_utils::loadl_epi64(src_row, x + 2),', ['C02']),
 ('u16x2-avx2-coef', 'convolution/u16x2/avx2.rs', '_mm256_set_epi64x(k[5] as i64, k[5] as i64, k[1] as i64, k[1] as i64);', '_mm256_set_epi64x(k[5] as i64, k[1] as i64, k[5] as i64, k[1] as i64);', ['C02']),
 ('u8x1-avx2-init',  'convolution/u8x1/avx2.rs', 'let initial = _mm256_set1_epi32(1 << (normalizer.precision() - 4));', 'let initial = _mm256_set1_epi32(1 << (normalizer.precision() - 3));', ['C02']),
 ('u8x1-avx2-hsum',  'convolution/u8x1/avx2.rs', 'const I: i32 = (2 << 6) | (3 << 4) | 1;', 'const I: i32 = (2 << 6) | (3 << 4) | 2;', ['C02']),
 ('u8x2-avx2-init3', 'convolution/u8x2/avx2.rs', 'let mut sss256 = _mm256_set1_epi32(1 << (precision - 3));', 'let mut sss256 = _mm256_set1_epi32(1 << (precision - 2));', ['C02']),
 ('u8x2-avx2-lt16',  'convolution/u8x2/avx2.rs', 'let mut sss = if coeffs.len() < 16 {', 'let mut sss = if coeffs.len() < 8 {', ['C02']),
 ('u8x2-avx2-sh3',   'convolution/u8x2/avx2.rs', '15, 14, 13, 12, 15, 14, 13, 12, 11, 10, 9, 8, 11, 10, 9, 8,\n        7, 6, 5, 4, 7, 6, 5, 4, 3, 2, 1, 0, 3, 2, 1, 0,', '7, 6, 5, 4, 7, 6, 5, 4, 3, 2, 1, 0, 3, 2, 1, 0,\n        7, 6, 5, 4, 7, 6, 5, 4, 3, 2, 1, 0, 3, 2, 1, 0,', ['C02']),
 ('alpha-list',     'mul_div.rs', 'PixelType::U8x2\n', 'PixelType::U8x3\n', ['C06', 'C07']),
]

def run(cmd, cwd=None, timeout=3600):
    p = subprocess.run(cmd, cwd=cwd, capture_output=True, text=True, timeout=timeout)
    return p.returncode, p.stdout + p.stderr

def main():
    src = os.path.join(SCR, 'repo', 'src')
    lean = os.path.join(SCR, 'lean')
    if os.path.isdir(SCR):
        shutil.rmtree(SCR)
    os.makedirs(os.path.join(SCR, 'repo'))
    shutil.copytree(SRC0, src)
    shutil.copytree(os.path.join(ROOT, 'lean'), lean, symlinks=True)
    pristine = os.path.join(SCR, 'src0')
    shutil.copytree(SRC0, pristine)
    results = []
    only = [a for a in sys.argv[1:] if not a.startswith('--')]
    for mid, f, old, new, props in M:
        if only and mid not in only:
            continue
        shutil.rmtree(src)
        shutil.copytree(pristine, src)
        path = os.path.join(src, f)
        text = open(path).read()
        if text.count(old) < 1:
            results.append({'id': mid, 'outcome': 'not-applicable (pattern not found)'})
            print('%-16s NOT-APPLICABLE (pattern not found in %s)' % (mid, f), flush=True)
            continue
        open(path, 'w').write(text.replace(old, new, 1))
        t0 = time.time()
        rc, out = run([sys.executable, os.path.join(ROOT, 'tools', 'rs2lean.py'), os.path.join(SCR, 'repo'), os.path.join(lean, 'Fir', 'Generated')])
        if rc != 0 or 'FAILED' in out:
            outcome = 'caught (translation)'
            detail = [l for l in out.splitlines() if 'FAILED' in l][:1]
        else:
            rc, out = run(['lake', 'build'] + ['Fir.Props.' + p for p in props], cwd=lean)
            if rc != 0:
                outcome = 'caught (proof)'
                detail = [l for l in out.splitlines() if 'error' in l][:1]
            else:
                outcome = 'survived the proof layer'
                detail = []
        results.append({'id': mid, 'file': f, 'old': old, 'new': new, 'props': props, 'outcome': outcome,
                        'detail': detail, 'seconds': round(time.time() - t0, 1)})
        print('%-16s %-26s %5.0fs  %s' % (mid, outcome, time.time() - t0, (detail[0][:110] if detail else '')), flush=True)
    caught = sum(1 for r in results if r['outcome'].startswith('caught'))
    appl = sum(1 for r in results if not r['outcome'].startswith('not-applicable'))
    print('summary: %d of %d applicable micro-mutants break the proof layer by themselves' % (caught, appl))
    os.makedirs(os.path.join(ROOT, 'work'), exist_ok=True)
    json.dump({'caught': caught, 'applicable': appl, 'results': results}, open(os.path.join(ROOT, 'work', 'micromut%s.json' % ('-partial' if only else '')), 'w'), indent=1)
    if '--keep' not in sys.argv:
        shutil.rmtree(SCR)

if __name__ == '__main__':
    main()
