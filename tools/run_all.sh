#!/bin/sh
# Re-run every claimed check (quick tier) on the current tree; used before committing evidence.
cd "$(dirname "$0")/.."
for id in $(python3 -c "import json;print(' '.join(c['property_id'] for c in json.load(open('MANIFEST.json'))['checks']))"); do
  ./check $id --tier quick > work/run_all_$id.log 2>&1; echo "$id rc=$? $(tail -1 work/run_all_$id.log | cut -c1-150)"
done
