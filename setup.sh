#!/bin/sh
# Run once in /verif after a fresh restore, offline: builds the Lean project (all property theorems
# and the model driver) and the correspondence harness from files on disk only.
set -e
cd "$(dirname "$0")"
export CARGO_NET_OFFLINE=true
python3 tools/rs2lean.py /repo lean/Fir/Generated
(cd lean && lake build Fir firmodel)
(cd harness && cargo build --profile verif-dbg && cargo build --profile verif-rel)
echo "setup done"
