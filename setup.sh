#!/bin/sh
# Run once in /verif after a fresh restore, offline: builds the Lean project (all property theorems
# and the model driver) and the correspondence harness from files on disk only.
set -e
cd "$(dirname "$0")"
export CARGO_NET_OFFLINE=true
python3 tools/rs2lean.py /repo lean/Fir/Generated
PROPS=$(python3 -c "import json;print(' '.join('Fir.Props.'+c['property_id'] for c in json.load(open('MANIFEST.json'))['checks']))")
(cd lean && lake build Fir firmodel $PROPS)
(cd harness && cargo build --profile verif-dbg)
echo "setup done"
